"""C02 — every frame-to-frame assignment is the global optimum.

Two streams:
  solver : random candidate graphs (exact ties frequent) through the real
           `subnet_linker_recursive/_nonrecursive/_numba(hybrid on/off)`; the model (`SOLVE`,
           proven optimal: Props/C02 `solveOrdered_optimal`) gives the optimum, the driver's proven
           admissibility test (`ADM`, `admissibleB_iff`) is applied to the implementation's
           output; raise/no-raise is compared with `#sources > max_size` (oversize_iff).
  step   : whole movies through `link_iter` checked step by step by the shadow relation of the
           linker model (`LSTEP`, see harness/linkcommon.py) including per-sub-net optimality.
Oracle for the failing-input search: exhaustive enumeration / Hungarian algorithm in Python,
independent of the Lean model.
"""
import itertools

import numpy as np

from . import common
from .common import Result

PROP = "C02"
RULE = ("solver stream: 1-8 sources x 1-8 destinations, 1-5 candidates per source, distances k/8 "
        "from a small range (ties frequent), max_size swept around the sub-net size; step stream: "
        "integer-lattice movies with planted disappear/reappear histories.  Non-trivial = "
        "contested (>=2 sources and >=2 candidates somewhere) for the solver stream, >=1 contested "
        "sub-net or memory re-link for the step stream; distinct = distinct canonical input.")
ASSUMPTIONS = [
    "costs are exact: distances are k/8 so dist**2 is exact in float64; float accumulation error "
    "in cur_sum (~1e-13) cannot reorder assignments whose exact costs differ by >= 1/64",
    "numba kernels run interpreted (numba is not installed); sources with > 8 real candidates are "
    "excluded for the numba strategies (documented 9-candidate cap)",
    "KD-tree candidate discovery is modelled by brute force (inclusive d <= R) and tied by the "
    "step stream only",
]
MIN_NONTRIVIAL = 20

STRATS = ["recursive", "nonrecursive", "numba", "hybrid"]


def init(ctx):
    common.setup_repo_path()


def _linker(name):
    import functools
    from trackpy.linking import subnetlinker as sl
    return {"recursive": sl.subnet_linker_recursive,
            "nonrecursive": sl.subnet_linker_nonrecursive,
            "hybrid": sl.subnet_linker_numba,
            "numba": functools.partial(sl.subnet_linker_numba, hybrid=False)}[name]


# ------------------------------------------------------------------------------------------
# generation

def gen_graph(rng, big=False):
    ns = rng.randint(1, 8 if not big else 12)
    nd = rng.randint(1, 8 if not big else 12)
    R = rng.choice([4, 6, 8, 10, 16])          # search range in units of 1/8
    lo = rng.choice([1, 1, R // 2, max(1, R - 2)])
    srcs = []
    for _ in range(ns):
        k = rng.randint(1, min(5, nd))
        ds = rng.sample(range(nd), k)
        cands = sorted(((rng.randint(lo, R), d) for d in ds))
        srcs.append([[d, dist] for dist, d in cands])
    used = {d for s in srcs for d, _ in s}
    # every destination of a sub-net has at least one source candidate: drop unused ones
    remap = {d: i for i, d in enumerate(sorted(used))}
    srcs = [[[remap[d], dist] for d, dist in s] for s in srcs]
    return dict(stream="solver", srcs=srcs, R=R, ndest=len(used))


def gen_cases(ctx):
    for inp in ctx.corpus():
        yield inp
    # exhaustive family (thorough): <=3 sources, destinations {0,1,2}, each source's candidate set
    # any non-empty subset with distances in {1,2} (units 1/8), R = 2
    if ctx.thorough:
        opts = []
        for r in range(1, 4):
            for ds in itertools.combinations(range(3), r):
                for dist in itertools.product([1, 2], repeat=r):
                    opts.append(sorted(zip(dist, ds)))
        for ns in (1, 2, 3):
            for combo in itertools.product(opts, repeat=ns):
                srcs = [[[d, dist] for dist, d in c] for c in combo]
                yield dict(stream="solver", srcs=srcs, R=2, ndest=3, family="exh3",
                           strategies=["recursive", "nonrecursive"] if ns == 3 else STRATS)
    n = ctx.n(1500, 30000)
    for i in range(n):
        rng = ctx.rng("solver", i)
        g = gen_graph(rng, big=(i % 10 == 9))
        g["max_size_delta"] = rng.choice([None, None, None, -1, 0, 1])
        g["shuffle"] = rng.randint(0, 10 ** 6)
        # uniform power-of-two rescaling of all distances (exact): the optimum does not change
        # (Props/C03 scale_invariant); tiny magnitudes expose absolute tolerances
        g["scale_pow"] = rng.choice([0, 0, 0, 0, -30, -20, -10, 10, 30])
        yield g
    from . import linkcommon
    m = ctx.n(300, 2500)
    for i in range(m):
        rng = ctx.rng("step", i)
        mv = linkcommon.gen_movie(rng, thorough=ctx.thorough, plant_history=True)
        mv["stream"] = "step"
        mv["strategy"] = rng.choice(["recursive", "nonrecursive", "numba", "hybrid", "auto"])
        yield mv


# ------------------------------------------------------------------------------------------
# implementation runner (solver level)

def run_solver_impl(inp, strategy, max_size):
    """returns ('ok', [chosen dest or None per source], births) or ('oversize',) or ('error', msg)"""
    import random
    from trackpy.linking.utils import Point, SubnetOversizeException
    Point.reset_counter()
    srcs, R8 = inp["srcs"], inp["R"]
    nd = 1 + max([d for s in srcs for d, _ in s], default=-1)
    dps = [Point(1, np.array([float(i), 0.0])) for i in range(nd)]
    sps = [Point(0, np.array([float(i), 1.0])) for i in range(len(srcs))]
    for sp, s in zip(sps, srcs):
        sp.forward_cands = [(dps[d], dist / 8.0 * 2.0 ** inp.get("scale_pow", 0)) for d, dist in s]
    order = list(range(len(sps)))
    random.Random(inp.get("shuffle", 0)).shuffle(order)
    # sets iterate in hash order; insertion order varies with the shuffle
    source_set = set(sps[i] for i in order)
    dest_set = set(dps)
    idx_s = {id(p): i for i, p in enumerate(sps)}
    idx_d = {id(p): i for i, p in enumerate(dps)}
    try:
        spl, dpl = _linker(strategy)(source_set, dest_set, R8 / 8.0 * 2.0 ** inp.get("scale_pow", 0),
                                     max_size=max_size)
    except SubnetOversizeException:
        return ("oversize",)
    chosen = {}
    births = []
    for sp, dp in zip(spl, dpl):
        if sp is None:
            births.append(idx_d[id(dp)])
        else:
            i = idx_s[id(sp)]
            if i in chosen:
                return ("error", "source %d returned twice" % i)
            chosen[i] = None if dp is None else idx_d[id(dp)]
    if len(chosen) != len(sps):
        return ("error", "sources missing from result: %s" % sorted(set(range(len(sps))) - set(chosen)))
    return ("ok", [chosen[i] for i in range(len(sps))], sorted(births))


def oracle_opt_cost(srcs, R):
    """independent optimum: Hungarian algorithm on the augmented matrix (exact ints)"""
    from scipy.optimize import linear_sum_assignment
    ns = len(srcs)
    nd = 1 + max([d for s in srcs for d, _ in s], default=-1)
    BIG = 10 ** 9
    M = np.full((ns, nd + ns), BIG, dtype=np.int64)
    for i, s in enumerate(srcs):
        for d, dist in s:
            M[i, d] = dist * dist
        M[i, nd + i] = R * R
    r, c = linear_sum_assignment(M)
    return int(M[r, c].sum())


def src_line(srcs, R):
    return " | ".join(" ".join(["%d:%d" % (d, dist * dist) for d, dist in s] + ["n:%d" % (R * R)])
                      for s in srcs)


def run_solver_case(ctx, inp):
    res = Result()
    srcs, R = inp["srcs"], inp["R"]
    ns = len(srcs)
    nd = 1 + max([d for s in srcs for d, _ in s], default=-1)
    contested = ns >= 2 and any(len(s) >= 2 for s in srcs)
    res.nontrivial = contested
    line = src_line(srcs, R)
    m = common.kv(ctx.ask("SOLVE " + line))
    if "cost" not in m:
        res.violation("harness-error", "model returned %r" % m)
        return res
    mcost = int(m["cost"])
    res.stat("solver_cases")
    res.stat("solver_unique" if m.get("unique") == "1" else "solver_tied")
    if inp.get("family"):
        res.stat("exhaustive_family")
    delta = inp.get("max_size_delta")
    max_size = 30 if delta is None else max(0, ns + delta)
    shortcut = (ns == 0 and nd == 1) or (ns == 1 and nd == 1)
    for strat in inp.get("strategies", STRATS):
        if strat in ("numba", "hybrid") and any(len(s) > 8 for s in srcs):
            continue
        out = run_solver_impl(inp, strat, max_size)
        expect_oversize = (ns > max_size) and not shortcut
        if out[0] == "oversize":
            res.stat("oversize_raised")
            if not expect_oversize:
                res.violation("property-violation",
                              "%s raised SubnetOversizeException with %d sources <= max_size %d"
                              % (strat, ns, max_size), impl="oversize", model="cost=%d" % mcost,
                              signature=dict(stream="solver", what="spurious-oversize"))
            continue
        if out[0] == "error":
            res.violation("property-violation", "%s: %s" % (strat, out[1]), impl=out,
                          signature=dict(stream="solver", what="malformed-result"))
            continue
        if expect_oversize:
            res.violation("property-violation",
                          "%s returned an answer for %d sources > max_size %d" % (strat, ns, max_size),
                          impl=out, signature=dict(stream="solver", what="missing-oversize"))
            continue
        chosen = out[1]
        dist_of = [dict((d, dist) for d, dist in s) for s in srcs]
        toks = []
        bad = None
        for i, d in enumerate(chosen):
            if d is None:
                toks.append("n:%d" % (R * R))
            elif d in dist_of[i]:
                toks.append("%d:%d" % (d, dist_of[i][d] ** 2))
            else:
                bad = "source %d linked to non-candidate %d" % (i, d)
        if bad is None:
            a = common.kv(ctx.ask("ADM " + line + " # " + " ".join(toks)))
            if a.get("adm") != "1":
                bad = "assignment not admissible (destination used twice)"
            elif int(a["cost"]) != mcost:
                bad = "cost %s/64 but optimum is %d/64" % (a["cost"], mcost)
        # births must be exactly the unclaimed destinations
        if bad is None:
            claimed = {d for d in chosen if d is not None}
            if sorted(set(range(nd)) - claimed) != out[2]:
                bad = "births %s != unclaimed destinations" % (out[2],)
        if bad is not None:
            # independent confirmation (oracle): is it really non-optimal / inadmissible?
            ocost = oracle_opt_cost(srcs, R)
            kind = "property-violation"
            res.violation(kind, "%s: %s (independent optimum %d/64)" % (strat, bad, ocost),
                          impl=dict(chosen=chosen, births=out[2]), model=m,
                          signature=dict(stream="solver", what="non-optimal", strategy=strat))
        elif m.get("unique") == "1":
            massign = [None if t == "n" else int(t) for t in m["assign"].split(",")]
            if massign != chosen:
                res.violation("correspondence-break",
                              "%s: unique optimum but assignment differs" % strat,
                              impl=chosen, model=massign, broken="function-mode solver",
                              signature=dict(stream="solver", what="unique-differs"))
    # the model itself against the independent oracle (guards the harness encoding)
    if res.stats["solver_cases"] and (ns <= 6 or ctx.thorough):
        oc = oracle_opt_cost(srcs, R)
        if oc != mcost:
            res.violation("harness-error", "model optimum %d != independent optimum %d" % (mcost, oc))
    if contested and not res.viol:
        res.sample = dict(input=dict(srcs=srcs, R=R), model=m)
    return res


def run_case(ctx, inp):
    if inp.get("stream") == "solver":
        return run_solver_case(ctx, inp)
    from . import linkcommon
    return linkcommon.run_movie_case(ctx, inp, want=("valid", "optimal"), prop="C02")
