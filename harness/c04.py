"""C04 — linking jobs are isolated from one another and reproducible.

A case is a schedule: 2-4 jobs (generators of link_iter / link_df_iter / find_link_iter over small
movies) whose steps are interleaved in a generated order, with complete `tp.link` calls injected
between steps and other jobs run to completion beforehand (prior history).  For every job:
  * its labelled output under the interleaving is judged by its own monitor (`LRUN`: no label
    twice per level, a new trajectory never re-uses a label of the job — Props/C01 accepted_valid);
  * the ids that name new trajectories at each step are compared with the per-job counter model
    (`JOBS perjob`, Props/C04 perJob_noninterference / perJob_fresh) as sets;
  * its partition is compared with the partition of the same job run alone afterwards: equal when
    every step's optimum is unique (`ties=0`), otherwise only the cost is comparable.

Stream `jsched` (system model, lean/TrackpyV/Model/JobsLinker.lean, Props/C04Sys): 2-3 plain
`link_iter` / `link_df_iter` jobs stepped in a generated order; the same cfgs + schedule go to the driver op `JSCHED`
(`runSched .perLinker`).  Per job: the uuids of the points of every level (recorded through a
wrapper of `Linker.update_hash`) must be the model's; when the monitor accepts the job's output with
`ties=0 capped=0` its partition, the number of levels it yielded and whether it raised
SubnetOversizeException must be the model's (function mode); otherwise validity + optimal cost only.
"""
import itertools

import numpy as np

from . import common, linkcommon
from .common import Result

PROP = "C04"
RULE = ("schedules of 2-4 interleaved generators (link_iter, link_df_iter, find_link_iter) with "
        "1-6 levels each, complete tp.link calls injected between steps, prior-history prefixes; "
        "thorough: every interleaving of 3 jobs x <=3 steps for a set of base movies.  Stream jsched: "
        "2-3 link_iter / link_df_iter jobs (2-5 levels, memory 0-2, Linker.MAX_SUB_NET_SIZE lowered to "
        "1-3 in 30 % of the cases), shuffled or round-robin order, the same schedule through the system "
        "model (JSCHED): uuids of every level's points, and partition / levels yielded / raise when "
        "every optimum is unique.  "
        "Non-trivial = at least two jobs are really interleaved (some job is stepped between two "
        "steps of another) and at least one trajectory is born after a first level; distinct = "
        "distinct canonical schedule+movies.")
ASSUMPTIONS = [
    "generator steps are atomic (single-threaded interleaving); thread-level races are outside "
    "the model",
    "jsched: the implementation is compared with the system model's labels as PARTITIONS and only for "
    "jobs whose every step has a unique optimum and stays within the documented caps (ties=0, "
    "capped=0 reported by the monitor); Point.uuid values are read through a wrapper of "
    "Linker.update_hash and compared exactly; Linker.MAX_SUB_NET_SIZE is one class attribute for all "
    "jobs of a schedule",
    "which integer names a trajectory is unspecified: ids are compared as per-step sets with the "
    "per-job counter model, partitions by content",
    "partition equality with the solo run is required only when every step has a unique optimum; "
    "for tied optima the repeat may legitimately pick another optimal assignment under C03's tie "
    "rule - C04's statement has no such carve-out, which is recorded as a known finding",
]
MIN_NONTRIVIAL = 20


def init(ctx):
    common.setup_repo_path()


class Img(np.ndarray):
    def __new__(cls, arr, frame_no):
        obj = np.asarray(arr).view(cls)
        obj.frame_no = frame_no
        return obj

    def __array_finalize__(self, obj):
        self.frame_no = getattr(obj, "frame_no", None)


class Movie:
    """a reader as image libraries hand it out: a sequence of frames with a close() that is honoured —
    the reader belongs to the CALLER, who may hand it to several jobs and closes it when he is done"""

    def __init__(self, frames):
        self._frames = list(frames)
        self.closed = False

    def __len__(self):
        return len(self._frames)

    def __getitem__(self, i):
        if self.closed:
            raise ValueError("I/O operation on closed file")
        return self._frames[i]

    def __iter__(self):
        for i in range(len(self._frames)):
            yield self[i]

    def close(self):
        self.closed = True


def render(pts, shape=(48, 48), amp=200):
    img = np.zeros(shape, dtype=np.float64)
    yy, xx = np.mgrid[0:shape[0], 0:shape[1]]
    for (y, x) in pts:
        img += amp * np.exp(-((yy - y) ** 2 + (xx - x) ** 2) / (2 * 2.0 ** 2))
    return np.clip(img, 0, 255).astype(np.uint8)


def gen_job(rng, kind=None):
    kind = kind or rng.choice(["link_iter", "link_iter", "link_df_iter", "find_link_iter",
                               "find_link_iter"])
    if kind == "find_link_iter":
        n = rng.randint(1, 4)
        nfr = rng.randint(2, 4)
        pts = [[rng.randint(10, 37), rng.randint(10, 37)] for _ in range(n)]
        if n >= 2 and rng.random() < 0.4:
            # a neighbour 11-12 px away: outside the separation (9) but inside the relocation background
            # radius of the other one once it has moved a little
            a = rng.choice([(11, 0), (0, 11), (8, 8), (-8, 8), (12, 0), (0, -12)])
            q = [pts[0][0] + a[0], pts[0][1] + a[1]]
            if 10 <= q[0] <= 37 and 10 <= q[1] <= 37:
                pts[1] = q
        # keep blobs separated (> separation + the largest relative motion per frame)
        pts = [p for i, p in enumerate(pts)
               if all((p[0] - q[0]) ** 2 + (p[1] - q[1]) ** 2 >= 121 for q in pts[:i])]
        frames = []
        for k in range(nfr):
            frames.append([list(p) for p in pts])
            for p in pts:
                p[0] = min(37, max(10, p[0] + rng.randint(-2, 2)))
                p[1] = min(37, max(10, p[1] + rng.randint(-2, 2)))
            if rng.random() < 0.5 and k < nfr - 1:
                q = [rng.randint(10, 37), rng.randint(10, 37)]
                if all((q[0] - p[0]) ** 2 + (q[1] - p[1]) ** 2 >= 196 for p in pts):
                    pts.append(q)          # a blob appears later: a trajectory is born mid-movie
        # movies of different brightness: anything a FindLinker remembers about one movie's grey
        # levels (thresholds, noise estimates) is wrong for the next one
        return dict(kind=kind, dim=2, frames=frames, t0=0, sr=[20, 20], iso=True, memory=0,
                    strategy=None, withhold_seed=(rng.randrange(10 ** 6) if rng.random() < 0.7 else None),
                    amp=rng.choice([200, 200, 250, 60, 24]))
    mv = linkcommon.gen_movie(rng, thorough=False, plant_history=True)
    mv["frames"] = mv["frames"][:rng.randint(1, 6)]
    mv["kind"] = kind
    mv["scale_pow"] = 0
    mv["entry"] = kind
    mv["strategy"] = rng.choice(["recursive", "nonrecursive", "numba", None])
    return mv


def gen_cases(ctx):
    for inp in ctx.corpus():
        yield inp
    n = ctx.n(260, 2000)
    for i in range(n):
        rng = ctx.rng("sched", i)
        nj = rng.randint(2, 4)
        jobs = [gen_job(rng) for _ in range(nj)]
        # one movie analysed by two jobs (same frames, other detections withheld): with `share` both
        # read the SAME frame objects; and two jobs with the same per-axis range share one array
        fl = [j for j, jb in enumerate(jobs) if jb["kind"] == "find_link_iter"]
        if fl and rng.random() < 0.5:
            twin = dict(jobs[fl[0]])
            twin["withhold_seed"] = rng.randrange(10 ** 6)
            jobs[fl[0]]["movie_id"] = twin["movie_id"] = "m%d" % fl[0]
            jobs.append(twin)
        an = [j for j, jb in enumerate(jobs) if jb["kind"] in ("link_iter", "link_df_iter") and not jb.get("iso", True)]
        if an and rng.random() < 0.5:
            other = gen_job(rng, kind=rng.choice(["link_iter", "link_df_iter"]))
            if other["dim"] == jobs[an[0]]["dim"] and not other.get("fine") and not jobs[an[0]].get("fine"):
                other["sr"], other["iso"], other["scale_pow"] = list(jobs[an[0]]["sr"]), False, 0
                jobs[an[0]]["scale_pow"] = 0
                jobs.append(other)
        nj = len(jobs)
        steps = []
        for j, jb in enumerate(jobs):
            steps += [j] * len(jb["frames"])
        mode = rng.random()
        if mode < 0.7:
            rng.shuffle(steps)
        elif mode < 0.85:
            steps.sort()                           # sequential: pure prior-history case
        else:
            steps = [s for pair in itertools.zip_longest(*[[j] * len(jobs[j]["frames"])
                                                           for j in range(nj)]) for s in pair
                     if s is not None]             # round robin
        sched = []
        for s in steps:
            sched.append(s)
            if rng.random() < 0.15:
                sched.append("L")                  # a complete tp.link call in between
        case = dict(stream="sched", jobs=jobs, sched=sched, link_seed=rng.randrange(10 ** 6))
        if rng.random() < 0.5:
            case["share"] = True
        # sampled: compare every job with its run in a fresh interpreter (cases with find_link jobs of
        # different brightness first: that is where remembered image statistics would show)
        amps = {jb.get("amp") for jb in jobs if jb["kind"] == "find_link_iter"}
        if i % 16 == 0:
            case["fresh"] = "all"
        elif i % 2 == 0 and any(jb["kind"] == "find_link_iter" and jb.get("amp", 200) <= 60
                                and jb.get("withhold_seed") is not None for jb in jobs):
            case["fresh"] = "dim"        # the dim movies are where stale grey-level statistics show
        yield case
    for i in range(ctx.n(60, 600)):
        yield gen_jsched(ctx.rng("jsched", i))
    if ctx.thorough:
        # every interleaving of 3 jobs with <= 3 steps each, for several base movie triples
        for b in range(12):
            rng = ctx.rng("exh", b)
            jobs = [gen_job(rng, kind=k) for k in ("link_iter", "link_df_iter", "link_iter")]
            for jb in jobs:
                jb["frames"] = jb["frames"][:rng.randint(1, 3)]
            base = []
            for j, jb in enumerate(jobs):
                base += [j] * len(jb["frames"])
            for perm in sorted(set(itertools.permutations(base))):
                yield dict(stream="sched", jobs=jobs, sched=list(perm), link_seed=b, family="exh")


def gen_jsched(rng):
    """a schedule of 2-3 plain link_iter / link_df_iter jobs for the system model (`JSCHED`)"""
    nj = rng.randint(2, 3)
    small = rng.random() < 0.3       # Linker.MAX_SUB_NET_SIZE set low: some jobs die of an oversize sub-net
    jobs = []
    for _ in range(nj):
        mv = linkcommon.gen_movie(rng, thorough=False, plant_history=True)
        mv["frames"] = mv["frames"][:rng.randint(2, 5)]
        mv["memory"] = min(mv["memory"], 2)
        mv["kind"] = mv["entry"] = rng.choice(["link_iter", "link_iter", "link_df_iter"])
        mv["scale_pow"] = 0
        mv["strategy"] = rng.choice(["recursive", "nonrecursive"] if small
                                    else ["recursive", "nonrecursive", "numba", None])
        mv.pop("maxsize", None)
        jobs.append(mv)
    lens = [len(jb["frames"]) for jb in jobs]
    if rng.random() < 0.6:
        steps = [j for j in range(nj) for _ in range(lens[j])]
        rng.shuffle(steps)
    else:                            # round robin: strictly alternating while several jobs are alive
        steps = [j for k in range(max(lens)) for j in range(nj) if k < lens[j]]
    case = dict(stream="jsched", jobs=jobs, sched=steps, u0=rng.choice([0, 0, 1, 7, 1000]))
    if small:
        case["maxsize"] = rng.choice([1, 2, 2, 3])
    return case


def _part(labs):
    d = {}
    for k, ls in enumerate(labs):
        for i, l in enumerate(ls):
            d.setdefault(l, []).append((k, i))
    return frozenset(tuple(x) for x in d.values())


def _nat_levels(txt, n):
    if n == 0:
        return []
    return [[int(x) for x in part.split(",") if x != ""] for part in txt.split("|")]


def run_jsched(ctx, inp):
    import trackpy.linking.linking as _L
    from trackpy.linking.utils import Point, SubnetOversizeException
    res = Result()
    jobs, sched = inp["jobs"], inp["sched"]
    nj = len(jobs)
    limits = linkcommon.code_limits()
    maxsize = int(inp.get("maxsize") or limits[0])
    out = [[] for _ in jobs]           # (pts, labels) per yielded level
    uids = [[] for _ in jobs]          # uuids of the points of every level the job created
    raised = [None] * nj               # index of the frame at which the job raised
    cur = [None]
    orig_update, old_max = _L.Linker.update_hash, _L.Linker.MAX_SUB_NET_SIZE

    def update_hash(self, coords, t, *args, **kwargs):      # extra parameters are passed through
        r = orig_update(self, coords, t, *args, **kwargs)
        uids[cur[0]].append([int(p.uuid) for p in self.hash.points])
        return r
    gens = [None] * nj
    ops = []
    try:
        _L.Linker.update_hash = update_hash
        _L.Linker.MAX_SUB_NET_SIZE = maxsize
        Point.reset_counter(int(inp.get("u0", 0)))      # the process-wide counter stands anywhere
        for s in sched:
            if raised[s] is not None:
                continue                                 # a dead generator is not stepped again
            cur[0] = s
            try:
                if gens[s] is None:
                    gens[s] = make_gen(jobs[s])
                pts, labels = next(gens[s])
            except SubnetOversizeException:
                raised[s] = len(out[s])
                continue
            except StopIteration:
                res.violation("property-violation", "job %d stopped before its last frame" % s,
                              signature=dict(stream="jsched", what="early-stop"))
                return res
            out[s].append((pts, labels))
            ops.append(s)
    finally:
        _L.Linker.update_hash = orig_update
        _L.Linker.MAX_SUB_NET_SIZE = old_max
        for g in gens:
            if g is not None:
                g.close()
    res.stat("jsched_schedules")
    res.stat("jsched_jobs", nj)
    res.stat("jsched_steps", len(ops))
    if inp.get("maxsize"):
        res.stat("jsched_small_max_sub_net_size")
    # the model: same cfgs, same schedule (every scheduled frame, also those after a raise)
    segs = ["mode=perlinker u0=%d njobs=%d" % (int(inp.get("u0", 0)), nj)]
    segs += [linkcommon.cfg_tokens(jb, maxsize=maxsize) for jb in jobs]
    idx = [0] * nj
    for s in sched:
        k = idx[s]
        idx[s] += 1
        pts = jobs[s]["frames"][k]
        segs.append("j=%d t=%d | %s | R" % (s, jobs[s]["t0"] + k,
                                            " ".join(",".join(str(int(c)) for c in p) for p in pts)))
    resp = ctx.ask("JSCHED " + " ; ".join(segs))
    model = []
    for grp in resp.split(" ; "):
        kvs = dict(tok.split("=", 1) for tok in grp.split() if "=" in tok)
        if "job" not in kvs:
            raise RuntimeError("JSCHED: %r" % resp[:200])
        n = int(kvs["n"])
        mu = kvs.get("uids", "")
        model.append(dict(failed=kvs["failed"] == "1", n=n, labels=_nat_levels(kvs.get("labels", ""), n),
                          uids=_nat_levels(mu, 1) if (n > 0 or mu != "" or kvs["failed"] == "1") else []))
    inter = any(ops[i] != ops[i + 1] and ops[i] in ops[i + 2:] for i in range(len(ops) - 2))
    compared = 0
    for j, jb in enumerate(jobs):
        md = model[j]
        lv = levels_for_monitor(jb, out[j])
        m = {"verdict": "ok", "ties": "0", "capped": "0"}
        if lv:
            m = common.kv(ctx.ask(linkcommon.lrun_line(jb, lv, maxsize=maxsize)))
        v = m.get("verdict")
        if v not in ("ok", "capped"):
            reason = str(m.get("reason")).replace("_", " ")
            omsg = linkcommon.oracle_levels(jb, lv)
            if omsg is not None:
                res.violation("property-violation", "job %d under interleaving: %s" % (j, omsg),
                              impl=dict(ops=ops, levels=out[j]), model=m,
                              signature=dict(stream="jsched", what="invalid-labels-under-interleaving"))
            else:
                res.violation("correspondence-break", "job %d: monitor rejects (%s), oracle accepts"
                              % (j, reason), impl=out[j], model=m, broken="Linker.stepCheck",
                              signature=dict(stream="jsched", what=reason))
            continue
        unique = v == "ok" and m.get("ties") == "0" and m.get("capped") == "0"
        did_raise = raised[j] is not None
        if did_raise:
            res.stat("jsched_jobs_raised")
            # the raise itself: judged by the monitor (`R` level), then by the independent oracle
            k = raised[j]
            lvR = lv + [(jb["t0"] + k, jb["frames"][k], None)]
            mr = common.kv(ctx.ask(linkcommon.lrun_line(jb, lvR, maxsize=maxsize)))
            vr = mr.get("verdict")
            if vr == "capped":
                # beyond MAX_NEIGHBORS / numba's 9-candidate cap: the documented caps, outside the model
                res.stat("jsched_capped_raise")
                unique = False
            elif vr != "expect-oversize":
                exp = linkcommon.expected_oversize_py(jb, lv, jb["t0"] + k, jb["frames"][k], maxsize)
                if not exp:
                    res.violation("property-violation",
                                  "job %d raised SubnetOversizeException at its frame %d but no group has "
                                  "more than %d sources" % (j, k, maxsize), impl=dict(ops=ops, levels=out[j]),
                                  model=mr, signature=dict(stream="jsched", what="raise-without-oversize"))
                else:
                    res.violation("correspondence-break", "job %d: monitor rejects the raise at frame %d, "
                                  "the oracle expects it" % (j, k), impl=out[j], model=mr,
                                  broken="Linker.stepCheck", signature=dict(stream="jsched", what="raise"))
                continue
        # uuids: the job's own counter, 0,1,2,... in creation order, whatever the others did
        nl = min(len(uids[j]), len(md["uids"])) if not unique else max(len(uids[j]), len(md["uids"]))
        if uids[j][:nl] != md["uids"][:nl]:
            flat = [u for l in uids[j] for u in l]
            if len(set(flat)) != len(flat):
                res.violation("property-violation", "job %d: two of its points carry the same uuid "
                              "(the hash of a point) under this schedule" % j,
                              impl=dict(ops=ops, uids=uids[j]), model=md["uids"],
                              signature=dict(stream="jsched", what="uuid-collision"))
            else:
                # which variant is the code?  (the model keeps the two other designs side by side)
                variant = ""
                for mode in ("sharedreset", "shared"):
                    alt = ctx.ask("JSCHED " + " ; ".join([segs[0].replace("perlinker", mode)] + segs[1:]))
                    grp = alt.split(" ; ")[j] if len(alt.split(" ; ")) > j else ""
                    au = dict(tok.split("=", 1) for tok in grp.split() if "=" in tok).get("uids")
                    if au is not None and _nat_levels(au, 1)[:nl] == uids[j][:nl]:
                        variant = " (they are those of UidMode.%s)" % mode
                        break
                res.violation("correspondence-break", "job %d: uuids of its points differ from the "
                              "per-Linker counter of the system model%s" % (j, variant),
                              impl=uids[j], model=md["uids"],
                              broken="JobsLinker.stepSys (UidMode.perLinker)",
                              signature=dict(stream="jsched", what="uuids-differ"))
            continue
        res.stat("jsched_uuid_levels_compared", nl)
        if not unique:
            res.stat("jsched_jobs_tied_or_capped")
            continue
        # function mode
        compared += 1
        res.stat("jsched_function_mode_jobs")
        impl_labels = [l for _, l in out[j]]
        if md["failed"] != did_raise or md["n"] != len(out[j]):
            res.violation("correspondence-break",
                          "job %d: implementation yielded %d levels and %s; the system model %d and %s"
                          % (j, len(out[j]), "raised" if did_raise else "did not raise", md["n"],
                             "raised" if md["failed"] else "did not raise"),
                          impl=dict(ops=ops, levels=out[j]), model=md, broken="JobsLinker.runSched",
                          signature=dict(stream="jsched", what="raise-differs"))
            continue
        if _part(md["labels"]) != _part(impl_labels) or \
                [len(x) for x in md["labels"]] != [len(x) for x in impl_labels]:
            # which side?  the job alone (the statement: same labels as when run alone)
            old = _L.Linker.MAX_SUB_NET_SIZE
            _L.Linker.MAX_SUB_NET_SIZE = maxsize
            try:
                solo = []
                try:
                    for x in make_gen(jb):
                        solo.append(x)
                except SubnetOversizeException:
                    pass
            finally:
                _L.Linker.MAX_SUB_NET_SIZE = old
            if partition(solo[:len(out[j])]) != partition(out[j]):
                res.violation("property-violation", "job %d: partition under interleaving differs from "
                              "the solo run although every step has a unique optimum" % j,
                              impl=dict(ops=ops, inter=out[j], solo=solo),
                              signature=dict(stream="jsched", what="partition-differs-unique-optimum"))
            else:
                res.violation("correspondence-break", "job %d: unique optimum at every step, yet the "
                              "partition differs from the system model's" % j, impl=impl_labels,
                              model=md["labels"], broken="JobsLinker.runSched / LinkerAlgo.algoLabels",
                              signature=dict(stream="jsched", what="function-mode-differs"))
            continue
        # the model's job output is the deterministic movie function (instance of sched_job_eq_algo)
        if not md["failed"] and lv:
            a = ctx.ask(linkcommon.lrun_line(jb, lv, maxsize=maxsize).replace("LRUN", "LALGO", 1))
            if not a.startswith("ok") or _nat_levels(a[3:], len(lv)) != md["labels"]:
                res.violation("correspondence-break", "job %d: JSCHED and LALGO disagree" % j,
                              impl=a, model=md["labels"], broken="JobsLinker.sched_job_eq_algo (driver)",
                              signature=dict(stream="jsched", what="jsched-vs-lalgo"))
        births = sum(1 for k, ls in enumerate(impl_labels[1:]) for l in ls
                     if all(l not in prev for prev in impl_labels[:k + 1]))
        res.stat("jsched_births_after_first_level", births)
        res.stat("jsched_contested_subnets", int(m.get("contested", 0)))
        res.stat("jsched_memory_relinks", int(m.get("relinks", 0)))
    res.nontrivial = inter and compared > 0
    if res.nontrivial and len(ops) <= 8 and not res.viol:
        res.sample = dict(stream="jsched", schedule=ops, frames=[jb["frames"] for jb in jobs],
                          labels=[[l for _, l in o] for o in out], uuids=uids, model=resp)
    return res


def make_gen(jb, shared=None):
    """`shared`: caller-owned objects handed to several jobs — {"sr": ndarray used as search_range,
    "reader": list of frames} (what a script does that links one movie twice or keeps its
    per-axis range in an array)"""
    import pandas as pd
    import trackpy as tp
    kind = jb["kind"]
    dim = jb["dim"]
    sr = linkcommon.search_range_arg(jb)
    if shared and shared.get("sr") is not None:
        sr = shared["sr"]
    cols = {1: ["x"], 2: ["y", "x"], 3: ["z", "y", "x"]}[dim]
    kw = dict(memory=jb["memory"])
    if jb.get("strategy"):
        kw["link_strategy"] = jb["strategy"]
    if kind == "link_iter":
        def it():
            for k, pts in enumerate(jb["frames"]):
                yield jb["t0"] + k, np.array(pts, dtype=float).reshape(len(pts), dim)
        g = tp.link_iter(it(), sr, **kw)
        return ((jb["frames"][k], [int(i) for i in ids]) for k, (t, ids) in enumerate(g))
    if kind == "link_df_iter":
        def dfs():
            for k, pts in enumerate(jb["frames"]):
                df = pd.DataFrame(np.array(pts, dtype=float).reshape(len(pts), dim), columns=cols)
                df["frame"] = jb["t0"] + k
                yield df
        g = tp.link_df_iter(dfs(), sr, pos_columns=cols, **kw)
        return (([[int(round(v)) for v in row] for row in df[cols].values],
                 [int(i) for i in df["particle"].values]) for df in g)
    if kind == "find_link_iter":
        from trackpy.linking.find_link import find_link_iter
        if shared and shared.get("reader") is not None:
            reader = shared["reader"]
        else:
            reader = [Img(render(pts, amp=jb.get("amp", 200)), k) for k, pts in enumerate(jb["frames"])]
        wseed = jb.get("withhold_seed")

        def before_link(coords, image=None, **kw):
            # injected detection failures: withhold a seeded subset of the detections in every
            # frame after the first, so that the FindLinker has to re-locate features
            if wseed is None or image is None or image.frame_no == 0 or len(coords) == 0:
                return coords
            import random as _r
            rr = _r.Random("%s:%s" % (wseed, image.frame_no))
            keep = [i for i in range(len(coords)) if rr.random() > 0.5]
            return coords[keep]
        g = find_link_iter(reader, search_range=sr, separation=9, diameter=9, minmass=100,
                           memory=jb["memory"], before_link=before_link)

        def conv():
            for t, f in g:
                if f is None:
                    yield [], []
                else:
                    yield ([[int(round(v)) for v in row] for row in f[["y", "x"]].values],
                           [int(i) for i in f["particle"].values])
        return conv()
    raise ValueError(kind)


def partition(levels):
    d = {}
    for k, (pts, labels) in enumerate(levels):
        for p, l in zip(pts, labels):
            d.setdefault(l, []).append((k, tuple(p)))
    return frozenset(frozenset(v) for v in d.values())


def fresh_solo(jb):
    """the job alone in a fresh interpreter -> dict(levels, raised) or None (infrastructure)"""
    import json
    import os
    import subprocess
    import sys
    try:
        p = subprocess.run([sys.executable, "-m", "harness.c04_fresh"], input=json.dumps(jb), text=True,
                           capture_output=True, cwd=common.ROOT, timeout=120)
        if p.returncode != 0:
            return None
        return json.loads(p.stdout.strip().split("\n")[-1])
    except Exception:
        return None


def levels_for_monitor(jb, levels):
    return [(jb["t0"] + k, pts, labels) for k, (pts, labels) in enumerate(levels)]


def run_case(ctx, inp):
    import random
    import trackpy as tp
    from trackpy.linking.utils import SubnetOversizeException
    if inp.get("stream") == "jsched":
        return run_jsched(ctx, inp)
    res = Result()
    jobs, sched = inp["jobs"], inp["sched"]
    # caller-owned objects shared between jobs (the solo re-runs below get FRESH ones)
    shared = [None] * len(jobs)
    if inp.get("share"):
        sr_objs, readers = {}, {}
        for j, jb in enumerate(jobs):
            sh = {}
            if jb["kind"] in ("link_iter", "link_df_iter") and not jb.get("iso", True):
                key = (tuple(jb["sr"]), jb.get("scale_pow", 0))
                if key not in sr_objs:
                    sr_objs[key] = np.array(linkcommon.search_range_arg(jb), dtype=np.float64)
                    res.stat("shared_search_range_arrays")
                sh["sr"] = sr_objs[key]
            if jb["kind"] == "find_link_iter":
                key = jb.get("movie_id", j)
                if key not in readers:
                    frs = [Img(render(pts, amp=jb.get("amp", 200)), k) for k, pts in enumerate(jb["frames"])]
                    # half of the shared movies are reader objects with a close() that is honoured
                    readers[key] = Movie(frs) if (len(frs) + j) % 2 == 0 else frs
                else:
                    res.stat("shared_movies")
                sh["reader"] = readers[key]
            shared[j] = sh
    gens = [None] * len(jobs)
    out = [[] for _ in jobs]
    dead = set()
    lrng = random.Random(inp["link_seed"])
    ops = []        # (job, levelindex) in execution order
    for s in sched:
        if s == "L":
            mv = linkcommon.gen_movie(lrng, thorough=False)
            mv["entry"] = "link"
            try:
                linkcommon.run_impl(mv)
            except Exception:
                pass
            continue
        if s in dead:
            continue
        try:
            if gens[s] is None:
                gens[s] = make_gen(jobs[s], shared[s])
            pts, labels = next(gens[s])
        except SubnetOversizeException:
            dead.add(s)
            continue
        except StopIteration:
            dead.add(s)
            continue
        except Exception as e:    # a job of valid input has no reason to fail because of the other jobs
            res.violation("property-violation",
                          "job %d (%s) raised %s at its step %d under this schedule: %s"
                          % (s, jobs[s]["kind"], type(e).__name__, len(out[s]), str(e)[:200]),
                          impl=dict(ops=ops), signature=dict(what="job-raises-under-interleaving",
                                                             error=type(e).__name__))
            return res
        out[s].append((pts, labels))
        ops.append(s)
        if len(out[s]) == len(jobs[s]["frames"]):
            # the job has seen its last frame: let it FINISH (run the generator to exhaustion, as a for
            # loop would) while the other jobs are still alive
            try:
                next(gens[s])
                res.violation("property-violation", "job %d (%s) yields more levels than it has frames"
                              % (s, jobs[s]["kind"]), signature=dict(what="extra-level"))
                return res
            except StopIteration:
                res.stat("jobs_finished_mid_schedule")
            except SubnetOversizeException:
                pass
            dead.add(s)
    res.stat("schedules")
    res.stat("jobs", len(jobs))
    res.stat("steps", len(ops))
    # really interleaved?
    inter = any(ops[i] != ops[i + 1] and ops[i] in ops[i + 2:] for i in range(len(ops) - 2))
    births_late = 0
    naming_ops = []
    for j, jb in enumerate(jobs):
        if not out[j]:
            continue
        lv = levels_for_monitor(jb, out[j])
        res.stat("kind_" + jb["kind"])
        isfl = jb["kind"] == "find_link_iter"
        line = linkcommon.lrun_line(jb, lv, opt=not isfl, drop=False)
        m = common.kv(ctx.ask(line))
        v = m.get("verdict")
        if v not in ("ok", "capped"):
            reason = str(m.get("reason")).replace("_", " ")
            omsg = linkcommon.oracle_levels(jb, lv, check_optimal=not isfl)
            if omsg is not None:
                res.violation("property-violation", "job %d (%s) under interleaving: %s"
                              % (j, jb["kind"], omsg), impl=dict(ops=ops, levels=out[j]), model=m,
                              signature=dict(what="invalid-labels-under-interleaving"))
            else:
                res.violation("correspondence-break", "job %d: monitor rejects (%s), oracle accepts"
                              % (j, reason), impl=out[j], model=m, broken="Linker.stepCheck",
                              signature=dict(what=reason))
            continue
        # solo re-run of the same job: same partition?
        try:
            solo = list(make_gen(jb))[:len(out[j])]
        except SubnetOversizeException:
            solo = None
        if solo is not None and len(solo) == len(out[j]):
            if partition(solo) != partition(out[j]):
                ties = m.get("ties", "?")
                if ties == "0":
                    res.violation("property-violation",
                                  "job %d (%s): partition under interleaving differs from the "
                                  "solo run although every step has a unique optimum"
                                  % (j, jb["kind"]), impl=dict(ops=ops, inter=out[j], solo=solo),
                                  signature=dict(what="partition-differs-unique-optimum"))
                else:
                    res.violation("property-violation",
                                  "job %d (%s): repeating the job gives another partition (an "
                                  "equally optimal assignment of a tied step)" % (j, jb["kind"]),
                                  impl=dict(inter=out[j], solo=solo),
                                  signature=dict(what="tied-optimum-partition-differs"))
                res.stat("partition_differs_ties")
            else:
                res.stat("partition_equal")
        # history-free reference: the same job alone in a FRESH interpreter (sampled cases)
        if (inp.get("fresh") == "all" or
                (inp.get("fresh") and isfl and jb.get("amp", 200) <= 60 and jb.get("withhold_seed") is not None)) \
                and not res.viol:
            fr = fresh_solo(jb)
            if fr is not None and not fr["raised"] and len(fr["levels"]) >= len(out[j]):
                ref = [(p, l) for p, l in fr["levels"]][:len(out[j])]
                res.stat("fresh_process_references")
                if partition(ref) != partition(out[j]):
                    if m.get("ties", "?") == "0" or isfl:
                        res.violation("property-violation",
                                      "job %d (%s): its partition in this process (after other jobs / "
                                      "earlier calls) differs from the same job run alone in a fresh "
                                      "interpreter" % (j, jb["kind"]),
                                      impl=dict(ops=ops, here=out[j], fresh=ref),
                                      signature=dict(what="partition-depends-on-process-history"))
                    else:
                        res.stat("fresh_differs_tied")
    # naming model: ids that start trajectories, per executed step, vs per-job counters
    seen = [set() for _ in jobs]
    idx = [0] * len(jobs)
    toks, impl_sets = [], []
    for s in ops:
        pts, labels = out[s][idx[s]]
        new = [l for l in labels if l not in seen[s]]
        if idx[s] == 0:
            toks.append("i:%d:%d" % (s, len(labels)))
        else:
            toks.append("s:%d:%d" % (s, len(new)))
            births_late += len(new)
        impl_sets.append(sorted(new))
        seen[s].update(labels)
        idx[s] += 1
    if toks:
        resp = ctx.ask("JOBS perjob " + " ".join(toks))
        model_sets = [sorted(int(x) for x in part.split(",") if x.strip())
                      for part in resp.split("|")]
        if model_sets != impl_sets:
            # concrete failing input?  a job that handed the same id to two trajectories
            dup = None
            for j in range(len(jobs)):
                ids = []
                sn = set()
                for pts, labels in out[j]:
                    for l in labels:
                        if l not in sn:
                            ids.append(l)
                    sn.update(labels)
            res.violation("correspondence-break",
                          "ids naming new trajectories differ from the per-job counter model",
                          impl=impl_sets, model=model_sets, broken="Jobs.tracePerJob",
                          signature=dict(what="naming-differs"))
    res.nontrivial = inter and births_late > 0
    if inp.get("family"):
        res.stat("exhaustive_family")
    if res.nontrivial and len(ops) <= 8 and not res.viol:
        res.sample = dict(schedule=ops, jobs=[dict(kind=jb["kind"], frames=jb["frames"]) for jb in jobs],
                          labels=[[l for _, l in o] for o in out])
    return res
