"""Movies for the linker properties (C01, C02 step level, C03, C04, C11, C12):
generator, implementation runners for the three entry points, the monitor request (`LRUN`, the
shadow relation of lean/TrackpyV/Model/Linker.lean) and an independent Python oracle that
re-states C01/C02 on the labelled output (used for the failing-input search).

Input format (JSON):
  dim, frames: list of lists of integer points, t0, sr: per-axis range in quarters (ints),
  iso: bool (scalar search_range), memory, strategy, entry in {link_iter, link, link_df_iter},
  missing: indices of frames removed from the table (entry == 'link' only; they count as elapsed),
  vel: optional drift per frame (ints) used with a predictor (C11)
"""
import numpy as np

from . import common
from .common import Result

ENTRIES = ["link_iter", "link", "link_df_iter"]


def weights(sr):
    """(w_i, B) with: pair within range  <=>  sum_i w_i*dx_i^2 <= B   (coordinates integer,
    per-axis range sr_i/4)."""
    d = len(sr)
    if all(a == sr[0] for a in sr):
        return [16] * d, sr[0] * sr[0]
    prod = 1
    for a in sr:
        prod *= a * a
    w, B = [16 * prod // (a * a) for a in sr], prod
    # common factor removed (a positive factor changes nothing: Props/C03 scale_invariant); keeps the
    # numbers of fine-lattice movies inside int64 for the scipy oracle
    import math
    g = B
    for x in w:
        g = math.gcd(g, x)
    return [x // g for x in w], B // g


def scale_of(inp):
    return 2.0 ** inp.get("scale_pow", 0)


def search_range_arg(inp):
    sr = inp["sr"]
    f = scale_of(inp)
    if inp.get("iso", True):
        return sr[0] / 4.0 * f
    return tuple(a / 4.0 * f for a in sr)


def gen_movie(rng, thorough=False, plant_history=False, dense=False):
    dim = rng.choice([1, 2, 2, 2, 3])
    nfr = rng.randint(2, 25 if thorough and rng.random() < 0.3 else 8)
    npart = rng.randint(0, 40 if thorough and rng.random() < 0.2 else 12)
    memory = rng.choice([0, 0, 1, 2, 3])
    iso = rng.random() < 0.7
    if iso:
        r = rng.choice([4, 5, 6, 8, 10, 12])
        sr = [r] * dim
    else:
        sr = [rng.choice([4, 8, 12]) for _ in range(dim)]
        if all(a == sr[0] for a in sr) and dim > 1:
            sr[0] = 4 if sr[0] != 4 else 8
        if dim == 1:
            iso = True
    Rmax = max(sr) / 4.0
    # lattice side: mean number of particles within range of one another between 0.3 and 4
    target = rng.choice([0.3, 1.0, 2.0, 4.0]) if not dense else rng.choice([3.0, 6.0])
    if npart > 12:
        # large levels: keep sub-nets small enough for the branch and bound (the code's and the
        # monitor's) to finish in bounded time
        target = rng.choice([0.3, 0.6, 1.0])
    elif npart > 8 and target > 3.0:
        target = 3.0     # 9-12 particles all within range of each other: exponential sub-nets
    if dim == 1 and npart > 8 and target > 0.6:
        target = 0.6     # on a line every moderately dense level percolates into one long chain
    vol_ball = {1: 2 * Rmax, 2: 3.14 * Rmax ** 2, 3: 4.19 * Rmax ** 3}[dim]
    side = max(2, int(round((max(npart, 1) * vol_ball / target) ** (1.0 / dim))))
    step = max(1, int(Rmax))
    pos = [[rng.randrange(side) for _ in range(dim)] for _ in range(npart)]
    # visibility pattern per particle
    vis = []
    for _ in range(npart):
        v = [rng.random() < 0.85 for _ in range(nfr)]
        if plant_history and nfr >= 4 and rng.random() < 0.6:
            a = rng.randrange(1, nfr - 1)
            g = rng.randint(1, memory + 2)
            for k in range(a, min(nfr - 1, a + g)):
                v[k] = False
            v[a - 1] = True
            if a + g < nfr:
                v[a + g] = True
        vis.append(v)
    frames = []
    for k in range(nfr):
        pts = []
        if rng.random() < 0.06:
            frames.append(pts)       # an empty frame
            for p in pos:
                for i in range(dim):
                    p[i] += rng.randint(-step, step)
            continue
        for p, v in zip(pos, vis):
            if v[k]:
                pts.append(list(p))
            mode = rng.random()
            for i in range(dim):
                if mode < 0.15:
                    pass                                   # stays (duplicates / exact ties)
                elif mode < 0.9:
                    p[i] += rng.randint(-step, step)
                else:
                    p[i] += rng.randint(-3 * step, 3 * step)   # jumps out of range
        if rng.random() < 0.3:
            for _ in range(rng.randint(1, 3)):               # spurious extra features
                pts.append([rng.randrange(side) for _ in range(dim)])
        if pts and rng.random() < 0.1:
            pts.append(list(rng.choice(pts)))                # exact duplicate position
        rng.shuffle(pts)
        frames.append(pts)
    if npart <= 12 and nfr >= 2 and memory == 0 and rng.random() < 0.15:
        # a crowded level followed by a nearly empty one: 9-11 features within range of one spot
        # (exactly MAX_NEIGHBORS = 10 candidate sources is still inside C02's quantifier)
        k = rng.randrange(0, nfr - 1)
        c = [rng.randrange(side) for _ in range(dim)]
        rad = max(1, int(min(sr) / 4.0 / (dim ** 0.5)) - 1) if min(sr) >= 8 else 1
        crowd = []
        for _ in range(rng.choice([9, 10, 10, 10, 11])):
            crowd.append([ci + rng.randint(-rad, rad) for ci in c])
        frames[k] = crowd
        frames[k + 1] = [list(c)] + ([[ci + 3 * int(max(sr) / 4.0) + 2 for ci in c]] if rng.random() < 0.5 else [])
    star = False
    if dim == 2 and nfr >= 2 and rng.random() < 0.06:
        # a "crowded star": ONE source with 11 features within range while every feature has about six
        # candidate sources; ten helper sources sit right beside the star's ten nearest features, so
        # that the optimum gives the centre its ELEVENTH nearest candidate.  (The documented cap of MAX_NEIGHBORS is per feature;
        # a cap applied per source loses that candidate.)
        import math
        R = 40
        ph = rng.random() * 2 * math.pi
        offs = []
        for j in range(11):
            rad = 32.0 if j < 10 else 36.0
            th = ph + 2 * math.pi * j / 11
            offs.append((int(round(rad * math.cos(th))), int(round(rad * math.sin(th)))))
        d2 = [o[0] * o[0] + o[1] * o[1] for o in offs]
        helpers = [(int(round(1.06 * o[0])), int(round(1.06 * o[1]))) for o in offs[:10]]
        ok = len(set(offs)) == 11 and len(set(helpers) | set(offs)) == 21 and max(d2[:10]) < d2[10] < R * R
        if ok:
            star = True
            zoom = max(1, int(R / (max(sr) / 4.0)))     # the other levels keep their density
            sr, iso = [4 * R, 4 * R], True
            k = rng.randrange(0, nfr - 1)
            c = [rng.randrange(200), rng.randrange(200)]
            frames[k] = [list(c)] + [[c[0] + h[0], c[1] + h[1]] for h in helpers]
            frames[k + 1] = [[c[0] + o[0], c[1] + o[1]] for o in offs]
            rng.shuffle(frames[k])
            rng.shuffle(frames[k + 1])
            for j in range(nfr):
                if j not in (k, k + 1):       # keep the other levels away from the star
                    frames[j] = [[zoom * p[0] + 4000, zoom * p[1] + 4000] for p in frames[j]]
    # uniform power-of-two rescaling of coordinates and search_range (exact in float64; the
    # monitor's integer costs do not change: Props/C03 scale_invariant).  Small magnitudes expose
    # absolute tolerances, large ones loss of precision.
    # (not below 2^-10: HashKDTree.query adds an ABSOLUTE slack of 1e-7 to the search range, which
    # must stay negligible against the lattice spacing for the candidate relation to be exact)
    scale_pow = rng.choice([0, 0, 0, 0, 0, 0, -10, -8, 10, 20])
    # fine lattice: every coordinate and the range multiplied by K, then each coordinate moved by
    # -1/0/+1 fine units.  Pairs that sat exactly at the range now sit a relative 1e-3..1e-4 inside or
    # outside it (K*R -+ 1..2 units): a range test that is off by a small relative amount, or whose
    # tolerance grows with the magnitude of the coordinates, decides them differently.  All numbers
    # stay exactly representable (units of 2^-10 or 2^-8 px, or 1 px).
    # K <= 256 keeps the smallest possible excess over the range (a transverse offset of one unit at
    # a range of R_l <= 768 units: relative (1/R_l)^2/2 >= 8e-7, absolute >= 6e-7 px) well above the
    # 1e-7 slack HashKDTree.query adds to the range (relative for per-axis ranges, absolute else).
    fine = 0
    if rng.random() < 0.15 and not star:      # (a star's range of 40 units would put K*R beyond 768)
        fine = rng.choice([64, 256])
        frames = [[[c * fine + rng.randint(-1, 1) for c in p] for p in f] for f in frames]
        sr = [a * fine for a in sr]
        scale_pow = rng.choice([-10, -8, 0])
    inp = dict(dim=dim, frames=frames, t0=rng.choice([0, 0, 1, 5, 17, -3, -8]), sr=sr, iso=iso,
               scale_pow=scale_pow, default_cols=(rng.random() < 0.3),
               memory=memory, strategy="recursive", entry="link_iter", missing=[])
    if rng.random() < 0.3:
        inp["cols_perm"] = True
    if rng.random() < 0.2:
        inp["maxsize"] = rng.choice([2, 3, 4, 6, 12, 40])
    if fine:
        inp["fine"] = fine
    if rng.random() < 0.25:
        inp["linker_reuse"] = True      # (link_iter entry only) see run_impl
    return inp


# ---------------------------------------------------------------------------------------------
# implementation runners: all return  levels = [(t, [[pos...], ...], [labels...] | None)]
# (None = SubnetOversizeException was raised while producing this level)

def _kwargs(inp, extra=None):
    kw = dict(memory=inp["memory"])
    if inp.get("strategy") not in (None, "default"):
        kw["link_strategy"] = inp["strategy"]
    for k in ("adaptive_stop", "adaptive_step"):
        if inp.get(k) is not None:
            kw[k] = inp[k]
    if extra:
        kw.update(extra)
    return kw


def shifted_frames(inp):
    """frames with the drift vel*t added (C11)"""
    vel = inp.get("drift")
    out = []
    for k, pts in enumerate(inp["frames"]):
        t = inp["t0"] + k * inp.get("tstep", 1)
        if vel:
            out.append([[c + v * t for c, v in zip(p, vel)] for p in pts])
        else:
            out.append([list(p) for p in pts])
    return out


def uses_object_path(inp):
    """this movie is linked by a Linker object driven directly (see `_reused_linker`)"""
    return bool(inp.get("linker_reuse")) and inp.get("entry", "link_iter") == "link_iter"


# class attributes (MAX_SUB_NET_SIZE, MAX_SUB_NET_SIZE_ADAPTIVE) that the object path sets on a
# SUBCLASS of Linker instead of on Linker itself - how a user configures one linker without touching
# the others; see `size_limits`
_SUBCLASS_ATTRS = {}


class size_limits:
    """context manager: run with the given size limits configured - on the Linker class, or (object
    path, every other movie) on the subclass the object path instantiates, Linker left at its defaults"""

    def __init__(self, inp, **attrs):
        self.attrs = attrs
        self.on_subclass = uses_object_path(inp) and (len(inp["frames"]) + inp.get("memory", 0)) % 2 == 0

    def __enter__(self):
        import trackpy.linking.linking as L
        if self.on_subclass:
            _SUBCLASS_ATTRS.update(self.attrs)
        else:
            self.old = {k: getattr(L.Linker, k) for k in self.attrs}
            for k, v in self.attrs.items():
                setattr(L.Linker, k, v)
        return self

    def __exit__(self, *exc):
        import trackpy.linking.linking as L
        if self.on_subclass:
            for k in self.attrs:
                _SUBCLASS_ATTRS.pop(k, None)
        else:
            for k, v in self.old.items():
                setattr(L.Linker, k, v)
        return False


def _reused_linker(pairs, sr, kw):
    """what link_iter does (linking.py: `Linker(search_range, **kwargs)`, `init_level`, `next_level`,
    `particle_ids`), on a Linker that has been through the whole movie once already"""
    from trackpy.linking.linking import Linker
    from trackpy.linking.utils import SubnetOversizeException
    cls = Linker
    if _SUBCLASS_ATTRS:
        cls = type("UserLinker", (Linker,), dict(_SUBCLASS_ATTRS))
    linker = cls(sr, **kw)
    try:
        for k, (t, a) in enumerate(pairs):
            if k == 0:
                linker.init_level(a.copy(), t)
            else:
                linker.next_level(a.copy(), t)
    except SubnetOversizeException:
        pass                    # the second pass raises at the same place and is judged there
    for k, (t, a) in enumerate(pairs):
        if k == 0:
            linker.init_level(a, t)
        else:
            linker.next_level(a, t)
        yield t, linker.particle_ids


def run_impl(inp, extra_kwargs=None, predictor=None):
    import pandas as pd
    import trackpy as tp
    from trackpy.linking.utils import SubnetOversizeException
    dim = inp["dim"]
    frames = shifted_frames(inp)
    t0 = inp["t0"]
    ts = inp.get("tstep", 1)
    sr = search_range_arg(inp)
    kw = _kwargs(inp, extra_kwargs)
    if predictor is not None:
        kw["predictor"] = predictor
    cols = ["x", "y", "z"][:dim][::-1] if dim > 1 else ["x"]
    cols = {1: ["x"], 2: ["y", "x"], 3: ["z", "y", "x"]}[dim]
    entry = inp.get("entry", "link_iter")
    levels = []
    if entry == "link_iter":
        # a third of the movies come out of a generator that RE-USES one buffer for every frame (the
        # array handed over for frame k is overwritten when frame k+1 is produced): what the linker
        # needs from a level it has to keep itself
        reuse_buf = (len(frames) + dim + inp.get("memory", 0)) % 3 == 0 and not uses_object_path(inp)
        nmax = max([len(p) for p in frames] + [1])

        def it():
            buf = np.empty((nmax, dim), dtype=float)
            for k, pts in enumerate(frames):
                a = np.array(pts, dtype=float).reshape(len(pts), dim) * scale_of(inp)
                if reuse_buf:
                    buf[:len(pts)] = a
                    buf[len(pts):] = -12345.0
                    yield t0 + k * ts, buf[:len(pts)]
                else:
                    yield t0 + k * ts, a
        # ... or the movie is handed over as a re-iterable container (documented: "an iterable of
        # ndarrays or of (frame number, ndarray) pairs"): a list of pairs, a list of arrays, one 3-D array
        container = (len(frames) * 3 + dim + inp.get("memory", 0)) % 5
        src = it()
        if not reuse_buf:
            if container == 0:
                src = list(it())
            elif container == 1 and t0 == 0 and ts == 1:
                src = [a for _, a in it()]
            elif container == 2 and t0 == 0 and ts == 1 and len(set(len(p) for p in frames)) == 1 and len(frames[0]) > 0:
                src = np.array([a for _, a in it()])
            elif container == 3:
                src = tuple(it())
        gen = tp.link_iter(src, sr, **kw)
        # ... or by a Linker OBJECT that has linked another sequence before (the class is public;
        # `init_level` starts a new sequence): what the first sequence left behind — remembered
        # features, ids — must not reach the second one.  The first sequence is the movie itself.
        if uses_object_path(inp):
            gen = _reused_linker(list(it()), sr, kw)
        # two kinds of consumer: one reads each yielded list at once, the other keeps the yielded
        # objects and reads them when the generator is exhausted (`list(tp.link_iter(...))`): what was
        # yielded for a level must not change afterwards
        eager = (len(frames) + inp.get("memory", 0)) % 2 == 0
        kept = []
        k = 0
        while True:
            try:
                t, ids = next(gen)
            except StopIteration:
                break
            except SubnetOversizeException:
                kept.append((t0 + k * ts, k, None))
                break
            kept.append((int(t), k, ids if eager else [int(i) for i in ids]))
            k += 1
        for t, k, ids in kept:
            # more results than frames is judged like any other wrong answer (labels for no features)
            levels.append((t, frames[k] if k < len(frames) else [],
                           None if ids is None else [int(i) for i in ids]))
        return levels
    if entry == "link_df_iter":
        given = []

        def dfs():
            for k, pts in enumerate(frames):
                a = np.array(pts, dtype=float).reshape(len(pts), dim) * scale_of(inp)
                df = pd.DataFrame(a, columns=cols)
                df["frame"] = t0 + k * ts
                given.append((df, df.copy(deep=True)))
                yield df
        # the same request with the position columns named in another order (and the per-axis range
        # permuted with them): which column is listed first must not matter
        pcols, psr = cols, sr
        if inp.get("cols_perm") and dim >= 2:
            perm = list(range(dim))[::-1] if dim == 2 else [1, 2, 0]
            pcols = [cols[i] for i in perm]
            if isinstance(sr, tuple):
                psr = tuple(sr[i] for i in perm)
        if inp.get("null_predict"):
            gen = tp.predict.NullPredict().link_df_iter(dfs(), psr, pos_columns=pcols, **kw)
        else:
            gen = tp.link_df_iter(dfs(), psr, pos_columns=pcols, **kw)
        k = 0
        while True:
            try:
                df = next(gen)
            except StopIteration:
                break
            except SubnetOversizeException:
                levels.append((t0 + k * ts, frames[k], None))
                break
            levels.append((t0 + k * ts, [[int(round(v / scale_of(inp))) for v in row] for row in df[cols].values],
                           [int(i) for i in df["particle"].values]))
            k += 1
        # purity: the caller's per-frame tables must be left as they were
        for mine, before in given:
            if list(mine.columns) != list(before.columns) or not mine.equals(before):
                inp.setdefault("_impure", []).append("link_df_iter modified a caller's frame table "
                                                     "(columns now %s)" % list(mine.columns))
                break
        return levels
    if entry == "link":
        rows = []
        missing = set(inp.get("missing", []))
        for k, pts in enumerate(frames):
            if k in missing:
                continue
            for p in pts:
                rows.append([float(c) * scale_of(inp) for c in p] + [t0 + k])
        if not rows:
            return None
        df = pd.DataFrame(rows, columns=cols + ["frame"])
        df["frame"] = df["frame"].astype(int)
        # the table as a user may hold it: rows in any order, the frame column in any numeric dtype
        import random as _random
        rr = _random.Random(len(rows) * 7919 + dim * 31 + inp.get("memory", 0))
        if rr.random() < 0.5:
            order = list(range(len(df)))
            rr.shuffle(order)
            df = df.iloc[order].reset_index(drop=True)
        fmin, fmax = int(df["frame"].min()), int(df["frame"].max())
        dts = ["int64", "int64", "int32", "float64"]
        if fmin >= 0:
            dts += ["uint64", "uint32"] + (["uint16"] if fmax < 60000 else []) + (["uint8"] if fmax < 250 else [])
        if -120 < fmin and fmax < 120:
            dts += ["int8"]
        df["frame"] = df["frame"].astype(rr.choice(dts))
        lkw = dict(kw)
        if inp.get("default_cols") and dim >= 2:
            # rely on link's default pos_columns, with the table listing x before y (before z)
            df = df[cols[::-1] + ["frame"]]
        else:
            lkw["pos_columns"] = cols
        try:
            out = tp.link(df, sr, **lkw)
        except SubnetOversizeException:
            return "oversize"
        fr = out["frame"].values
        lo, hi = int(fr.min()), int(fr.max())
        for t in range(lo, hi + 1):
            sub = out[out["frame"] == t]
            levels.append((t, [[int(round(v / scale_of(inp))) for v in row] for row in sub[cols].values],
                           [int(i) for i in sub["particle"].values]))
        return levels
    raise ValueError(entry)


# ---------------------------------------------------------------------------------------------
# monitor request

_LIMITS = {}


def code_limits():
    """(MAX_SUB_NET_SIZE, MAX_NEIGHBORS) as the code under test defines them: the monitor judges
    'raises exactly when a sub-net exceeds MAX_SUB_NET_SIZE' against the code's own constant (read
    once per process, before any harness patches the class attribute)"""
    if not _LIMITS:
        from trackpy.linking.linking import Linker
        _LIMITS["v"] = (int(Linker.MAX_SUB_NET_SIZE), int(Linker.MAX_NEIGHBORS))
    return _LIMITS["v"]


def cfg_tokens(inp, maxsize=None, maxn=None, vel=None, drop=False, opt=True):
    w, B = weights(inp["sr"])
    if maxsize is None:
        maxsize = code_limits()[0]
    if maxn is None:
        maxn = code_limits()[1]
    # numba / hybrid: numba_link also raises when a source has more than 9 forward candidates
    ncap = inp.get("strategy") in ("numba", "hybrid")
    return "w=%s B=%d mem=%d maxn=%d maxsize=%d vel=%s drop=%d opt=%d ncap=%d" % (
        ",".join(map(str, w)), B, inp["memory"], maxn, maxsize,
        "-" if not vel else ",".join(str(int(v)) for v in vel), 1 if drop else 0, 1 if opt else 0,
        1 if ncap else 0)


def lrun_line(inp, levels, **kw):
    parts = [cfg_tokens(inp, **kw)]
    for t, pts, labels in levels:
        cs = " ".join(",".join(str(int(c)) for c in p) for p in pts)
        ls = "R" if labels is None else " ".join(str(l) for l in labels)
        parts.append("t=%d | %s | %s" % (t, cs, ls))
    return "LRUN " + " ; ".join(parts)


# ---------------------------------------------------------------------------------------------
# independent oracle: C01 validity + C02 optimality re-stated on the labelled output

def oracle_levels(inp, levels, check_optimal=True, vel=None, maxn=None):
    """returns None if the statement holds on this output, else a message"""
    from scipy.optimize import linear_sum_assignment
    w, B = weights(inp["sr"])
    memory = inp["memory"]
    if maxn is None:
        maxn = code_limits()[1]

    def d2(p, q):
        return sum(wi * (a - b) ** 2 for wi, a, b in zip(w, p, q))

    last = {}   # label -> (level index, pos, t)
    for k, (t, pts, labels) in enumerate(levels):
        if labels is None:
            return None   # raise/no-raise is judged separately
        if len(labels) != len(pts):
            return "level %d: %d labels for %d features" % (k, len(labels), len(pts))
        if any((not isinstance(l, int)) or l < 0 for l in labels):
            return "level %d: label is not a non-negative integer" % k
        if len(set(labels)) != len(labels):
            return "level %d: label used twice in one frame" % k
        srcs = {}
        for l, (kk, p0, tt) in last.items():
            if k - kk <= memory + 1:
                pv = p0 if not vel else [c + v * (t - tt) for c, v in zip(p0, vel)]
                srcs[l] = pv
        for p, l in zip(pts, labels):
            if l in last:
                kk, p0, tt = last[l]
                if k - kk > memory + 1:
                    return "level %d: label %d re-used after a gap of %d levels (memory %d)" % (
                        k, l, k - kk, memory)
                if d2(srcs[l], p) > B:
                    return "level %d: label %d moved farther than search_range" % (k, l)
        if check_optimal and k > 0 and srcs and pts:
            keys = sorted(srcs)
            ns, nd = len(keys), len(pts)
            BIG = 10 ** 15
            M = np.full((ns, nd + ns), BIG, dtype=np.int64)
            capped = False
            for j, p in enumerate(pts):
                nn = 0
                for i, l in enumerate(keys):
                    c = d2(srcs[l], p)
                    if c <= B:
                        M[i, j] = c
                        nn += 1
                if nn > maxn:
                    capped = True
            for i in range(ns):
                M[i, nd + i] = B
            if not capped:
                r, c = linear_sum_assignment(M)
                opt = int(M[r, c].sum())
                lab2j = {l: j for j, l in enumerate(labels)}
                actual = 0
                for i, l in enumerate(keys):
                    if l in lab2j:
                        actual += int(M[i, lab2j[l]])
                    else:
                        actual += B
                if actual != opt:
                    return "level %d: links cost %d but an admissible assignment costs %d " \
                           "(scaled units)" % (k, actual, opt)
        for p, l in zip(pts, labels):
            last[l] = (k, p, t)
    return None


def expected_oversize_py(inp, levels_before, t, pts, maxsize, vel=None):
    """independent: does the step to `pts` contain a connected group with > maxsize sources?"""
    w, B = weights(inp["sr"])
    memory = inp["memory"]

    def d2(p, q):
        return sum(wi * (a - b) ** 2 for wi, a, b in zip(w, p, q))
    last = {}
    for k, (tt, ps, labels) in enumerate(levels_before):
        for p, l in zip(ps, labels):
            last[l] = (k, p, tt)
    k = len(levels_before)
    srcs = [(p0 if not vel else [c + v * (t - tt) for c, v in zip(p0, vel)])
            for l, (kk, p0, tt) in last.items() if k - kk <= memory + 1]
    parent = list(range(len(srcs) + len(pts)))

    def find(a):
        while parent[a] != a:
            parent[a] = parent[parent[a]]
            a = parent[a]
        return a
    for i, s in enumerate(srcs):
        for j, p in enumerate(pts):
            if d2(s, p) <= B:
                parent[find(i)] = find(len(srcs) + j)
    cnt, dcnt = {}, {}
    for i in range(len(srcs)):
        cnt[find(i)] = cnt.get(find(i), 0) + 1
    for j in range(len(pts)):
        dcnt[find(len(srcs) + j)] = dcnt.get(find(len(srcs) + j), 0) + 1
    return any(c > maxsize and not (c == 1 and dcnt.get(r, 0) == 1) for r, c in cnt.items())


# ---------------------------------------------------------------------------------------------

def run_movie_case(ctx, inp, want=("valid", "optimal"), prop="C01", maxsize=None):
    """one movie through the implementation and the monitor"""
    code_limits()
    res = Result()
    if maxsize is None and inp.get("maxsize"):
        # the documented knob: Linker.MAX_SUB_NET_SIZE set by the user ("… or increase
        # Linker.MAX_SUB_NET_SIZE"); the raise / no-raise boundary must follow it
        maxsize = int(inp["maxsize"])
        res.stat("max_sub_net_size_set_to_%d" % maxsize)
        with size_limits(inp, MAX_SUB_NET_SIZE=maxsize) as lim:
            if lim.on_subclass:
                res.stat("size_limit_set_on_a_subclass")
            levels = run_impl(inp)
    else:
        if maxsize is None:
            maxsize = code_limits()[0]
        levels = run_impl(inp)
    if levels is None:
        res.stat("empty_table")
        return res
    if levels == "oversize":
        res.stat("link_oversize")     # `link` raised: no partial output to judge
        return res
    if inp.get("_impure"):
        res.violation("property-violation", inp["_impure"][0],
                      signature=dict(stream="movie", what="caller-table-modified"))
        inp.pop("_impure")
    line = lrun_line(inp, levels, maxsize=maxsize, drop=(inp.get("strategy") == "drop"),
                     opt=("optimal" in want))
    m = common.kv(ctx.ask(line))
    res.stat("movies")
    res.stat("entry_" + inp.get("entry", "link_iter"))
    res.stat("strategy_" + str(inp.get("strategy")))
    res.stat("levels", len(levels))
    v = m.get("verdict")
    if v in ("ok", "expect-oversize", "capped"):
        c, r = int(m.get("contested", 0)), int(m.get("relinks", 0))
        res.stat("contested_subnets", c)
        res.stat("memory_relinks", r)
        res.stat("capped_steps", int(m.get("capped", 0)))
        if v == "expect-oversize":
            res.stat("oversize_expected_and_raised")
        if v == "capped":
            res.stat("capped_raise")
        res.nontrivial = (c + r) > 0
        # function mode: when every step's optimum is unique the implementation's partition must be
        # the one of the deterministic algorithm model (Props/C02Algo algo_accepted)
        if (v == "ok" and m.get("ties") == "0" and m.get("capped") == "0" and "optimal" in want
                and inp.get("strategy") != "drop"):
            a = ctx.ask(lrun_line(inp, levels, maxsize=maxsize).replace("LRUN", "LALGO", 1))
            if a.startswith("ok"):
                alab = [[int(x) for x in part.split(",") if x != ""] for part in a[3:].split("|")]
                if len(alab) == len(levels) and all(len(x) == len(l[2]) for x, l in zip(alab, levels)):
                    def part(labs):
                        d = {}
                        for k, ls in enumerate(labs):
                            for i, l in enumerate(ls):
                                d.setdefault(l, []).append((k, i))
                        return frozenset(tuple(x) for x in d.values())
                    res.stat("function_mode_compared")
                    if part(alab) != part([l[2] for l in levels]):
                        res.violation("correspondence-break",
                                      "unique optimum at every step, yet the implementation's partition "
                                      "differs from the deterministic algorithm model",
                                      impl=[l[2] for l in levels], model=alab,
                                      broken="LinkerAlgo.algoLabels (function mode)",
                                      signature=dict(stream="step", what="function-mode-differs"))
        if res.nontrivial and len(levels) <= 4:
            res.sample = dict(input=inp, implementation_levels=levels, monitor=m)
        return res
    # monitor rejected the implementation's trace: search for a concrete failing input = ask the
    # independent oracle on this very output
    msg = oracle_levels(inp, levels, check_optimal=("optimal" in want))
    reason = str(m.get("reason", m)).replace("_", " ")
    if msg is None and "Oversize" in reason or "oversize" in reason:
        k = int(m.get("step", 0))
        before = [l for l in levels[:k] if l[2] is not None]
        if k < len(levels):
            exp = expected_oversize_py(inp, before, levels[k][0], levels[k][1], maxsize)
            raised = levels[k][2] is None
            if exp != raised:
                msg = "step %d: SubnetOversizeException %s but a group with more than %d " \
                      "sources %s" % (k, "raised" if raised else "not raised", maxsize,
                                      "exists" if exp else "does not exist")
    if msg is not None:
        res.violation("property-violation", msg + " [monitor: %s]" % reason,
                      impl=levels, model=m, signature=dict(stream="step", what=reason))
    else:
        res.violation("correspondence-break", "monitor rejected the trace (%s at step %s) but the "
                      "independent oracle accepts it" % (reason, m.get("step")),
                      impl=levels, model=m, broken="Linker.stepCheck shadow relation",
                      signature=dict(stream="step", what=reason))
    return res
