"""C07 — centre-of-mass refinement is engine-independent and self-consistent.

One stream of (image, raw image, radius, shift_thresh, max_iterations, characterize, start pixels)
through the real `trackpy.refine.center_of_mass`:

  * engines: `refine_com_arr(engine='python')` (`_refine`) and `engine='numba'`, which dispatches on
    (ndim, characterize, isotropy) to `_numba_refine_2D`, `_2D_c`, `_2D_c_a`, `_3D` — run
    INTERPRETED (numba is not installed; try_numba returns the plain Python function).  A spy
    around the four kernels records which one ran.  Plus the DataFrame wrapper `refine_com`
    (column names / order, index pass-through, same numbers).
  * direct ORACLE (written from the property statement, numpy int64 / Fractions, its own
    cross-multiplied integer ellipse — independent of the Lean model and of trackpy.masks):
      (a) python and numba outputs agree column by column;
      (b) there is an integer mask centre c*, mask wholly inside the image, such that the reported
          position is the brightness centroid of the mask at c* AND the reported mass, size,
          signal, raw_mass are the measurements on that same mask.
  * CORRESPONDENCE (function mode) with `Model/Refine.lean` (`C07REF`, `C07MASK`): every column of
    every engine against the model's exact rationals (size via its square, ecc recomputed from
    the model's exact numerator parts with the code's +1e-6), mask index list against
    `binary_mask(...).nonzero()`.
"""
import itertools
import math
from fractions import Fraction

import numpy as np

from . import common
from .common import Result

PROP = "C07"
RULE = ("images 2-D (<=40 px/axis) and 3-D (<=16 px/axis) of integer pixels in uint8/uint16/int64/"
        "float64: tie-heavy 2-6 level palettes, blobs on noise, brightness ramps towards borders "
        "(drive the mask into the clip), sparse spikes, plateaus, flat, and a tie stream (every 5th "
        "case: radii <= 2, 0/v images, dyadic threshold); independent raw image; "
        "per-axis radii 1-5 (3-D mostly 1-3) isotropic and not; max_iterations in {1,2,3,10} (0 "
        "rarely); shift_thresh 0.6 mostly, dyadic 0.25/0.5/0.75/1.0 otherwise (exact ties "
        "decidable in float64); characterize on/off; 1-6 start pixels anywhere with the mask box "
        "inside the image (also flush with the border) and non-zero start brightness.  "
        "Non-trivial = some feature needs >= 2 evaluations (the mask moved); distinct = distinct "
        "canonical input.")
ASSUMPTIONS = [
    "pixels are integers (< 2^16) so every mask sum and first moment is exact in float64; the "
    "quotients / square roots carry rounding ~1e-16, compared at 1e-9 relative (positions, "
    "mass, signal, raw_mass; size through size**2) and 1e-9*mass/(mass-centre+1e-6) absolute "
    "for ecc (cancellation in the numerator sums)",
    "shift_thresh is a parameter of the model: the harness passes the exact rational value of the "
    "float the code compares against (Fraction(0.6) = 5404319552844595/2^53, not 3/5).  An exact "
    "off-centre of +-3/5 is therefore NOT a tie of the code: its float outcome depends on the "
    "rounding of (sum/mass - r) (measured: r=1 moves, r=4 breaks) identically in all engines; such "
    "cases (margin < 1e-9) are counted borderline: the model comparison is skipped, the "
    "engine-vs-engine oracle still runs.  With dyadic thresholds an off-centre of exactly "
    "+-thresh is exact in float64 and is compared (neither break nor move on that axis)",
    "zero-brightness masks (_safe_center_of_mass branch; the kernels divide by zero) are outside "
    "the property's hypothesis: starts with a black mask are not generated, features whose "
    "reported mass is 0 (a later mask black) are excluded and counted",
    "numba is absent: the four kernels run interpreted; 'run compiled' cannot be observed here",
    "start pixels satisfy r_i <= c_i <= shape_i-1-r_i (the driver re-checks it per feature)",
    "float start coordinates are integers +- 0.25 (np.round is unambiguous)",
]
MIN_NONTRIVIAL = 20
TOL = 1e-9
KERNELS = ["_numba_refine_2D", "_numba_refine_2D_c", "_numba_refine_2D_c_a", "_numba_refine_3D"]
_SPY = []
DTYPES = {"uint8": np.uint8, "uint16": np.uint16, "int64": np.int64, "float64": np.float64}


def init(ctx):
    common.setup_repo_path()
    import functools
    import trackpy.refine.center_of_mass as com
    for k in KERNELS:
        f = getattr(com, k)
        if getattr(f, "_c07_spy", False):
            continue

        def wrap(f=f, k=k):
            @functools.wraps(f)
            def g(*a, **kw):
                _SPY.append(k)
                return f(*a, **kw)
            g._c07_spy = True
            return g
        setattr(com, k, wrap())


# ------------------------------------------------------------------------------------------
# generation

def _texture(rng, shape, kind, vmax):
    nd = len(shape)
    n = int(np.prod(shape))
    idx = list(itertools.product(*[range(s) for s in shape]))
    if kind == "palette":
        levels = rng.choice([2, 2, 3, 4, 6])
        pal = [0] + [rng.randint(1, vmax) for _ in range(levels - 1)]
        if rng.random() < 0.4:
            pal = [rng.randint(1, 5) for _ in range(levels)]
        return [rng.choice(pal) for _ in range(n)]
    if kind == "flat":
        v = rng.randint(1, vmax)
        return [v] * n
    if kind == "blobs":
        nb = rng.randint(1, 4)
        cs = [[rng.uniform(0, s - 1) for s in shape] for _ in range(nb)]
        amp = [rng.randint(vmax // 4 + 1, vmax) for _ in range(nb)]
        sig = [[rng.uniform(0.8, 3.0) for _ in shape] for _ in range(nb)]
        noise = rng.choice([0, 1, 3, max(1, vmax // 20)])
        out = []
        for p in idx:
            v = rng.randint(0, noise)
            for c, a, s in zip(cs, amp, sig):
                v += a * math.exp(-sum(((pi - ci) / si) ** 2 for pi, ci, si in zip(p, c, s)) / 2)
            out.append(min(vmax, int(v)))
        return out
    if kind in ("ramp", "corner"):
        # brightness growing towards one corner / border: pushes the centroid out of the image
        # ("corner": along EVERY axis at once, steeply: the mask is pushed over the bound of all axes
        # in the same iteration)
        sgn = [rng.choice([-1, 0, 1]) for _ in shape]
        if kind == "corner":
            sgn = [rng.choice([-1, 1]) for _ in shape]
        if not any(sgn):
            sgn[rng.randrange(nd)] = rng.choice([-1, 1])
        power = rng.choice([1, 2, 3]) if kind == "ramp" else rng.choice([2, 3, 3])
        base = rng.randint(0, 3)
        out = []
        for p in idx:
            t = 0.0
            for pi, s, sh in zip(p, sgn, shape):
                if s:
                    u = pi / max(1, sh - 1)
                    t += (u if s > 0 else 1 - u)
            t /= sum(1 for s in sgn if s)
            if kind == "corner":
                # exponential towards the corner: the relative slope (and with it the centroid's offset)
                # does not depend on the size of the image
                dist = sum((sh - 1 - pi) if s_ > 0 else pi for pi, s_, sh in zip(p, sgn, shape))
                out.append(min(vmax, base + int(vmax * 2.0 ** (-dist / float(power - 1)))))
            else:
                out.append(min(vmax, base + int(vmax * t ** power)))
        return out
    if kind == "spikes":
        out = [0] * n
        for _ in range(max(2, n // rng.choice([6, 12, 25]))):
            out[rng.randrange(n)] = rng.randint(1, vmax)
        return out
    if kind == "plateau":
        out = [rng.randint(0, 2)] * n
        arr = np.array(out).reshape(shape)
        for _ in range(rng.randint(1, 4)):
            lo = [rng.randrange(s) for s in shape]
            hi = [min(s, l + rng.randint(1, max(1, s // 2))) for l, s in zip(lo, shape)]
            arr[tuple(slice(l, h) for l, h in zip(lo, hi))] = rng.randint(1, vmax)
        return [int(v) for v in arr.ravel()]
    raise ValueError(kind)


def gen_case(rng, i, thorough=False):
    tie = i % 5 == 4      # tie stream: small masks, 0/v images, dyadic threshold
    nd = 3 if rng.random() < (0.5 if tie else 0.3) else 2
    iso = rng.random() < 0.5
    rmax = 5 if nd == 2 else rng.choice([2, 3, 3, 5] if thorough else [2, 3, 3, 4])
    if tie:
        rmax = 2
    if iso:
        radius = [rng.randint(1, rmax)] * nd
    else:
        radius = [rng.randint(1, rmax) for _ in range(nd)]
        if len(set(radius)) == 1:
            radius[rng.randrange(nd)] = radius[0] % rmax + 1
    lim = 40 if nd == 2 else 16
    shape = []
    for r in radius:
        extra = rng.choice([0, 1, 2, 3, 5, 8, 12, 12, 20, 20, 20, 30, 30])
        shape.append(min(max(2 * r + 1, lim), 2 * r + 1 + extra))
    dtype = rng.choice(["uint8", "uint8", "uint16", "int64", "float64"])
    vmax = {"uint8": 255, "uint16": 65535, "int64": rng.choice([255, 4000]),
            "float64": rng.choice([255, 1000])}[dtype]
    if rng.random() < 0.3:
        vmax = rng.choice([1, 2, 5, 10])
    kind = rng.choice(["palette", "palette", "palette", "blobs", "blobs", "ramp", "ramp",
                       "spikes", "plateau", "flat", "corner"])
    if tie:
        kind, v = "tie", rng.randint(1, vmax)
        dens = rng.choice([0.15, 0.3, 0.5])
        img = [v if rng.random() < dens else 0 for _ in range(int(np.prod(shape)))]
    else:
        img = _texture(rng, shape, kind, vmax)
    rawkind = rng.choice(["palette", "blobs", "spikes"])
    raw = _texture(rng, shape, rawkind, vmax)
    if rng.random() < 0.05:
        raw = list(img)
    thr = rng.choice(["0.6"] * 6 + ["0.5", "0.5", "0.75", "0.25", "1.0"])
    if kind in ("palette", "spikes", "plateau") and rng.random() < 0.35:
        thr = rng.choice(["0.5", "0.5", "0.25", "0.75"])   # exact ties are frequent and decidable
    if tie:
        thr = rng.choice(["0.5", "0.5", "0.25", "0.75", "1.0"])
    max_iter = rng.choice([1, 2, 3, 10, 10]) if rng.random() > 0.03 else 0
    arr = np.array(img, dtype=np.int64).reshape(shape)
    mask = exact_mask(radius)
    starts = []
    if kind == "corner":
        # start a few pixels (diagonally) from the last admissible centre next to the bright corner
        max_iter = rng.choice([3, 10, 10])
        top = np.unravel_index(int(np.argmax(arr)), arr.shape)
        for _ in range(rng.randint(1, 3)):
            d = rng.randint(1, 3)
            c = []
            for r, s_, t_ in zip(radius, shape, top):
                lo, hi = r, s_ - 1 - r
                c.append(min(hi, lo + d) if t_ < s_ / 2 else max(lo, hi - d))
            rect = tuple(slice(ci - r, ci + r + 1) for ci, r in zip(c, radius))
            if int((arr[rect] * mask).sum()) > 0 and c not in starts:
                starts.append(c)
    for _ in range(rng.randint(1, 6) if not starts else 1):
        for _try in range(20):
            c = []
            for r, s in zip(radius, shape):
                lo, hi = r, s - 1 - r
                c.append(rng.choice([lo, hi] + [rng.randint(lo, hi) for _ in range(12)]))
            rect = tuple(slice(ci - r, ci + r + 1) for ci, r in zip(c, radius))
            if int((arr[rect] * mask).sum()) > 0:
                starts.append(c)
                break
    perturb = [[rng.choice([0, 0, 0.25, -0.25]) for _ in range(nd)] for _ in starts]
    wrapper = dict(engine=rng.choice(["python", "numba"]),
                   index=rng.sample(range(1000), len(starts)),
                   form=rng.choice(["frame", "frame", "frame_shuffled_cols", "array"]))
    return dict(stream="refine", kind=kind, shape=shape, radius=radius, dtype=dtype, thr=thr,
                max_iter=max_iter, characterize=rng.random() < 0.7, img=img, raw=raw,
                starts=starts, perturb=perturb, wrapper=wrapper)


# radii with lattice points EXACTLY on the ellipse (Pythagorean): whether such a pixel belongs to the
# mask is decided by a floating-point `<= 1` in every mask builder of trackpy.masks
BIG_RADII_2D = [[5, 5], [10, 10], [13, 13], [13, 13], [15, 15], [17, 17], [20, 20], [25, 25], [26, 26],
                [13, 26], [26, 13], [5, 13], [13, 5], [10, 13], [25, 13]]


def gen_bigmask(rng, i, thorough):
    """one feature, a LARGE mask (diameter 11 ... 53), brightness on the pixels that lie exactly on
    the ellipse: every column of the row must come from ONE mask"""
    if i % 8 == 7:
        radius = rng.choice([[13, 13, 13], [5, 13, 13], [13, 5, 5]] if thorough else [[5, 13, 5], [5, 5, 13]])
    else:
        radius = list(rng.choice(BIG_RADII_2D))
    nd = len(radius)
    shape = [2 * r + 1 + rng.choice([0, 2, 4, 7]) for r in radius]
    centre = [rng.randint(r, s - 1 - r) for r, s in zip(radius, shape)]
    img = np.zeros(shape, dtype=np.int64)
    grids = np.meshgrid(*[np.arange(s) for s in shape], indexing="ij")
    P = 1
    for r in radius:
        P *= r * r
    q = sum((g - c) ** 2 * (P // (r * r)) for g, c, r in zip(grids, centre, radius))
    on = np.argwhere(q == P)
    near = np.argwhere((q < P) & (q > P * 0.8))
    img[q <= P] = rng.choice([0, 1, 3])
    # a core that keeps the centroid near the centre (so the mask does not move), then weight on the rim
    core = rng.choice([50, 400, 3000])
    img[tuple(centre)] = core
    for idx in on:
        if rng.random() < 0.7:
            img[tuple(idx)] = rng.randint(1, max(2, core // 10))
    for idx in near[:: max(1, len(near) // 12)]:
        if rng.random() < 0.5:
            img[tuple(idx)] = rng.randint(1, max(2, core // 20))
    raw = img + rng.choice([0, 1, 5])
    return dict(stream="bigmask", shape=shape, radius=radius, centre=centre, max_iter=rng.choice([1, 3, 10]),
                img=[int(v) for v in img.ravel()], raw=[int(v) for v in raw.ravel()],
                dtype=rng.choice(["uint16", "int64", "float64"]), n_on=int(len(on)))


def run_bigmask_case(ctx, inp):
    """self-consistency at mask sizes the exact model is not asked about: each engine's row must be
    the measurement of ONE (integer centre, mask) pair, the mask being trackpy's own binary_mask, the
    exact ellipse or the float ellipse - whichever, but the same for every column; engines agree."""
    import trackpy.refine.center_of_mass as com
    from trackpy.masks import binary_mask
    res = Result()
    shape, radius, nd = inp["shape"], inp["radius"], len(inp["shape"])
    iso = len(set(radius)) == 1
    nsize = 1 if iso else nd
    img64 = np.array(inp["img"], dtype=np.int64).reshape(shape)
    raw64 = np.array(inp["raw"], dtype=np.int64).reshape(shape)
    img, raw = img64.astype(inp["dtype"]), raw64.astype(inp["dtype"])
    coords = np.array([inp["centre"]], dtype=float)
    res.nontrivial = inp["n_on"] > 0
    res.stat("bigmask_cases_oracle_only")
    res.stat("bigmask_%dd" % nd)
    sig0 = dict(stream="bigmask", radius="x".join(map(str, radius)))
    grids = np.meshgrid(*[np.arange(-r, r + 1, dtype=float) for r in radius], indexing="ij")
    masks = [("library", np.asarray(binary_mask(tuple(radius), nd), dtype=bool)),
             ("exact", exact_mask(radius)),
             ("float", sum((g / r) ** 2 for g, r in zip(grids, radius)) <= 1)]
    if not (masks[0][1] == masks[1][1]).all():
        res.stat("bigmask_library_mask_not_exact_ellipse")
    rows = {}
    for eng in ("python", "numba"):
        if eng == "numba" and nd == 3 and max(radius) > 5 and min(radius) > 5:
            continue                                     # interpreted 3-D kernel: minutes
        try:
            r = com.refine_com_arr(raw.copy(), img.copy(), tuple(radius), coords.copy(),
                                   max_iterations=inp["max_iter"], engine=eng, characterize=True)
        except Exception as e:
            res.violation("property-violation", "refine_com_arr(engine=%r) raised %s: %s"
                          % (eng, type(e).__name__, str(e)[:200]),
                          signature=dict(sig0, what="engine-raises", engine=eng))
            return res
        rows[eng] = np.asarray(r, dtype=float)[0]
    if len(rows) == 2:
        es = abs(float(rows["python"][nd])) / max(1e-6, float(rows["python"][nd])
                                                  - float(rows["python"][nd + nsize + 2]) + 1e-6)
        bad = cmp_rows(rows["python"], rows["numba"], nd, nsize, True, a_sq=False, b_sq=False,
                       escale=es if nd == 2 else 1.0)
        if bad:
            res.violation("property-violation", "python and numba engines differ in %s (radius %s)"
                          % (bad, radius), impl={k: v.tolist() for k, v in rows.items()},
                          signature=dict(sig0, what="engines-differ", columns=bad))
    for eng, row in rows.items():
        whys = []
        for name, mk in masks:
            c, why = find_mask_centre(img64, raw64, radius, shape, row, True, mask=mk)
            if c is not None:
                res.stat("bigmask_row_is_%s_mask" % name)
                break
            whys.append("%s mask: %s" % (name, why))
        else:
            res.violation("property-violation",
                          "engine %s, radius %s: the row is not the measurement of one mask (%s)"
                          % (eng, radius, "; ".join(whys)), impl=row.tolist(),
                          signature=dict(sig0, what="not-a-mask-measurement", engine=eng))
    if res.nontrivial and not res.viol:
        res.sample = dict(stream="bigmask", radius=radius, shape=shape, pixels_on_ellipse=inp["n_on"],
                          python=rows["python"].tolist())
    return res


def gen_cases(ctx):
    for inp in ctx.corpus():
        yield inp
    if ctx.thorough:
        # exhaustive family: every 0/1 image on 3x4, radius (1,1), both admissible starts,
        # dyadic threshold (exact ties everywhere) and the default one
        for bits in range(1, 2 ** 12):
            img = [(bits >> k) & 1 for k in range(12)]
            for thr in ("0.5", "0.6"):
                yield dict(stream="refine", kind="exh3x4", family="exh3x4", shape=[3, 4],
                           radius=[1, 1], dtype="uint8", thr=thr, max_iter=3, characterize=True,
                           img=img, raw=img[::-1], starts=[[1, 1], [1, 2]], perturb=None,
                           wrapper=None)
    for i in range(ctx.n(1500, 40000)):
        inp = gen_case(ctx.rng("refine", i), i, ctx.thorough)
        if inp["starts"]:
            yield inp
    for i in range(ctx.n(40, 400)):
        yield gen_bigmask(ctx.rng("bigmask", i), i, ctx.thorough)


# ------------------------------------------------------------------------------------------
# oracle helpers (independent of the model and of trackpy.masks)

_MASKS = {}


def exact_mask(radius):
    """ellipse sum_i (d_i/r_i)^2 <= 1 in cross-multiplied integer form, boolean (2r+1)-box"""
    key = tuple(radius)
    if key not in _MASKS:
        P = 1
        for r in radius:
            P *= r * r
        grids = np.meshgrid(*[np.arange(-r, r + 1, dtype=np.int64) for r in radius], indexing="ij")
        s = sum(g * g * (P // (r * r)) for g, r in zip(grids, radius))
        _MASKS[key] = s <= P
    return _MASKS[key]


def close(a, b, scale=1.0):
    a, b = float(a), float(b)
    if math.isnan(a) or math.isnan(b):
        return math.isnan(a) and math.isnan(b)
    return abs(a - b) <= TOL * max(scale, abs(a), abs(b))


def measure_at(img, raw, radius, c, mask=None):
    """oracle measurements (exact) with the mask centred at integer c; None if black"""
    if mask is None:
        mask = exact_mask(radius)
    rect = tuple(slice(ci - r, ci + r + 1) for ci, r in zip(c, radius))
    nb = img[rect] * mask
    m = int(nb.sum())
    if m == 0:
        return None
    nd = len(radius)
    grids = np.meshgrid(*[np.arange(-r, r + 1, dtype=np.int64) for r in radius], indexing="ij")
    pos = [Fraction(int((nb * g).sum()), m) + ci for g, ci in zip(grids, c)]
    if len(set(radius)) == 1:
        rg2 = [Fraction(int((nb * sum(g * g for g in grids)).sum()), m)]
    else:
        rg2 = [Fraction(nd * int((nb * g * g).sum()), m) for g in grids]
    return dict(pos=pos, mass=m, rg2=rg2, signal=int(nb.max()), raw=int((raw[rect] * mask).sum()))


def find_mask_centre(img, raw, radius, shape, row, characterize, mask=None):
    """search every integer centre whose mask box is inside the image and could have the reported
    position as centroid; return (centre, None) or (None, reason)"""
    nd = len(radius)
    pos = [float(v) for v in row[:nd]]
    if any(math.isnan(p) for p in pos):
        return None, "position is NaN"
    if mask is None:
        mask = exact_mask(radius)
    ranges = []
    for p, r, s in zip(pos, radius, shape):
        lo = max(r, int(math.ceil(p - r - 1e-6)))
        hi = min(s - 1 - r, int(math.floor(p + r + 1e-6)))
        ranges.append(range(lo, hi + 1))
    partial = None
    for c in itertools.product(*ranges):
        rect = tuple(slice(ci - r, ci + r + 1) for ci, r in zip(c, radius))
        m = int((img[rect] * mask).sum())
        if m == 0 or not close(row[nd], m):
            continue
        o = measure_at(img, raw, radius, c, mask)
        if not all(close(a, b) for a, b in zip(pos, o["pos"])):
            continue
        if not characterize:
            return c, None
        k = len(o["rg2"])
        ok = (all(close(float(row[nd + 1 + j]) ** 2, o["rg2"][j]) for j in range(k))
              and close(row[nd + 2 + k], o["signal"]) and close(row[nd + 3 + k], o["raw"]))
        if ok:
            return c, None
        partial = (c, o)
    if partial is not None:
        c, o = partial
        return None, ("position and mass are those of the mask at %s but size/signal/raw_mass are "
                      "not (oracle size^2=%s signal=%s raw_mass=%s)"
                      % (list(c), [str(v) for v in o["rg2"]], o["signal"], o["raw"]))
    return None, "no mask inside the image has this centroid and mass"


# ------------------------------------------------------------------------------------------
# model side

def ask_model(ctx, inp):
    thr = Fraction(float(inp["thr"]))
    line = "C07REF %s | %s | %s | %d | %s | %s | %s" % (
        ",".join(map(str, inp["shape"])), ",".join(map(str, inp["radius"])), common.rat_str(thr),
        inp["max_iter"], ",".join(map(str, inp["img"])), ",".join(map(str, inp["raw"])),
        " ; ".join(",".join(map(str, s)) for s in inp["starts"]))
    resp = ctx.ask(line)
    if resp == "bad-op":
        raise RuntimeError("driver rejected C07REF")
    recs = []
    for part in resp.split(" # "):
        d = common.kv(part)
        rec = dict(inside=d["inside"] == "1", zeromass=d["zeromass"] == "1", evals=int(d["evals"]),
                   conv=d["conv"] == "1", clips=int(d["clips"]), margin=Fraction(d["margin"]),
                   centre=[int(x) for x in d["centre"].split(",")],
                   trace=[[int(x) for x in t.split(":")] for t in d["trace"].split(";")],
                   pos=[Fraction(x) for x in d["pos"].split(",")], mass=Fraction(d["mass"]),
                   rg2=[Fraction(x) for x in d["rg2"].split(",")], signal=int(d["signal"]),
                   raw=Fraction(d["raw"]))
        if d["ecc"] == "nan":
            rec["ecc"] = None
        else:
            a, b, cpx = d["ecc"].split(",")
            rec["ecc"] = (Fraction(a), Fraction(b), int(cpx))
        recs.append(rec)
    return recs


def model_row(rec, characterize):
    """the model's record as the row of floats the code should return (+ per-column scales)"""
    row = [float(p) for p in rec["pos"]] + [float(rec["mass"])]
    if not characterize:
        return row, None
    sizes2 = [float(v) for v in rec["rg2"]]
    if rec["ecc"] is None:
        ecc, escale = float("nan"), 1.0
    else:
        e1, e2, cpx = rec["ecc"]
        den = float(rec["mass"]) - cpx + 1e-6
        ecc = math.sqrt(float(e1 * e1 + e2 * e2)) / den
        escale = float(rec["mass"]) / den
    return row + sizes2 + [ecc, float(rec["signal"]), float(rec["raw"])], escale


def cmp_rows(a, b, nd, nsize, characterize, a_sq=False, b_sq=True, escale=1.0):
    """compare two result rows; size columns through their squares (a_sq/b_sq: already squared);
    returns the list of differing column roles"""
    bad = []
    for j in range(nd):
        if not close(a[j], b[j]):
            bad.append("pos%d" % j)
    if not close(a[nd], b[nd]):
        bad.append("mass")
    if characterize:
        for j in range(nsize):
            x, y = float(a[nd + 1 + j]), float(b[nd + 1 + j])
            x = x if a_sq else x * x
            y = y if b_sq else y * y
            if not close(x, y):
                bad.append("size%d" % j)
        k = nd + 1 + nsize
        ea, eb = float(a[k]), float(b[k])
        if math.isnan(ea) != math.isnan(eb) or (not math.isnan(ea)
                                                 and abs(ea - eb) > TOL * (escale + abs(ea))):
            bad.append("ecc")
        if not close(a[k + 1], b[k + 1]):
            bad.append("signal")
        if not close(a[k + 2], b[k + 2]):
            bad.append("raw_mass")
    return bad


# ------------------------------------------------------------------------------------------

def expected_kernel(nd, characterize, iso):
    if nd == 3:
        return "_numba_refine_3D"
    if not characterize:
        return "_numba_refine_2D"
    return "_numba_refine_2D_c" if iso else "_numba_refine_2D_c_a"


def run_case(ctx, inp):
    if inp.get("stream") == "bigmask":
        return run_bigmask_case(ctx, inp)
    import pandas as pd
    import trackpy.refine.center_of_mass as com
    from trackpy.masks import binary_mask
    res = Result()
    shape, radius, nd = inp["shape"], inp["radius"], len(inp["shape"])
    char = bool(inp["characterize"])
    iso = len(set(radius)) == 1
    nsize = 1 if iso else nd
    thrf = float(inp["thr"])
    dyadic = Fraction(thrf).denominator <= 64
    img64 = np.array(inp["img"], dtype=np.int64).reshape(shape)
    raw64 = np.array(inp["raw"], dtype=np.int64).reshape(shape)
    dt = DTYPES[inp["dtype"]]
    img, raw = img64.astype(dt), raw64.astype(dt)
    starts = [list(s) for s in inp["starts"]]
    N = len(starts)
    coords = np.array(starts, dtype=float) + np.array(inp.get("perturb") or np.zeros((N, nd)))
    kern = expected_kernel(nd, char, iso)
    res.stat("cases")
    res.stat("features", N)
    if inp.get("family"):
        res.stat("exhaustive_family")
    for k in ("ndim_%d" % nd, "iso" if iso else "aniso", "char_on" if char else "char_off",
              "kernel" + kern[len("_numba_refine"):], "dtype_" + inp["dtype"],
              "maxiter_%d" % inp["max_iter"], "thr_" + inp["thr"], "texture_" + str(inp.get("kind")),
              "rmax_%d" % max(radius)):
        res.stat(k)
    sig0 = dict(ndim=nd, isotropic=iso, characterize=char)

    def pv(what, msg, **kw):
        sig = dict(sig0, what=what)
        sig.update(kw.pop("sig", {}))
        res.violation("property-violation", msg, signature=sig, **kw)

    def cb(what, msg, broken, **kw):
        sig = dict(sig0, what=what)
        sig.update(kw.pop("sig", {}))
        res.violation("correspondence-break", msg, broken=broken, signature=sig, **kw)

    # ---- mask geometry: model vs trackpy.masks vs oracle ------------------------------------
    mk = common.kv(ctx.ask("C07MASK " + ",".join(map(str, radius))))
    moffs = [tuple(int(x) for x in t.split(":")) for t in mk["offs"].split(";")]
    code_offs = [tuple(int(v) for v in t) for t in np.argwhere(binary_mask(tuple(radius), nd))]
    orc_offs = [tuple(int(v) for v in t) for t in np.argwhere(exact_mask(radius))]
    if code_offs != orc_offs:
        pv("mask-not-ellipse", "binary_mask(%s) is not the ellipse sum((x/r)^2) <= 1" % radius,
           impl=code_offs[:50], model=orc_offs[:50])
    elif moffs != code_offs:
        cb("model-mask-differs", "maskOffsets differs from binary_mask().nonzero()", "maskOffsets",
           impl=code_offs[:50], model=moffs[:50])

    # ---- model ----------------------------------------------------------------------------
    recs = ask_model(ctx, inp)
    assert len(recs) == N

    # ---- implementation: both engines -------------------------------------------------------
    out = {}
    from .c06 import memory_layout
    klay = int(img.size) + N + inp["max_iter"]
    res.stat("memory_" + memory_layout(img, klay)[1])
    for eng in ("python", "numba"):
        del _SPY[:]
        try:
            # (fresh arrays for every engine, in the case's memory layout: C / Fortran order, views)
            r = com.refine_com_arr(memory_layout(raw.copy(), klay)[0], memory_layout(img.copy(), klay)[0],
                                   tuple(radius), coords.copy(),
                                   max_iterations=inp["max_iter"], engine=eng,
                                   shift_thresh=thrf, characterize=char)
        except Exception as e:  # valid input: mask inside, non-zero brightness
            pv("engine-raises", "refine_com_arr(engine=%r) raised %s: %s"
               % (eng, type(e).__name__, str(e)[:200]), sig=dict(engine=eng))
            return res
        out[eng] = np.asarray(r, dtype=float)
        if eng == "numba" and _SPY != [kern]:
            cb("dispatch", "numba engine ran %r, expected %r" % (_SPY, kern), "kernel dispatch")
        if eng == "python" and _SPY:
            cb("dispatch", "python engine ran kernels %r" % _SPY, "kernel dispatch")
    ncol = nd + 1 + ((nsize + 3) if char else 0)
    for eng in out:
        if out[eng].shape != (N, ncol):
            pv("result-shape", "engine %s returned shape %s, expected %s"
               % (eng, out[eng].shape, (N, ncol)), sig=dict(engine=eng))
            return res

    # ---- same argument objects handed to both engines, no copies (what a caller does) ---------
    # The start pixels are passed as the integer array grey_dilation would return (half of the
    # cases; refine rounds float starts itself, so this is the same request) or as floats.  Same
    # arguments => same numbers as above, from either engine, in either order, and the caller's
    # arrays must come back untouched.
    as_int = (N + int(sum(sum(s_) for s_ in starts))) % 2 == 0
    shared_c = np.round(coords).astype(np.int64) if as_int else coords.copy()
    shared_raw, shared_img = raw.copy(), img.copy()
    keep_c, keep_raw, keep_img = shared_c.copy(), shared_raw.copy(), shared_img.copy()
    order = ("python", "numba") if (N + nd) % 2 == 0 else ("numba", "python")
    res.stat("shared_args_int_coords" if as_int else "shared_args_float_coords")
    for eng in order + (order[0],):
        try:
            r2 = np.asarray(com.refine_com_arr(shared_raw, shared_img, tuple(radius), shared_c,
                                               max_iterations=inp["max_iter"], engine=eng,
                                               shift_thresh=thrf, characterize=char), dtype=float)
        except Exception as e:
            pv("engine-raises", "refine_com_arr(engine=%r) raised %s on %s start pixels: %s"
               % (eng, type(e).__name__, shared_c.dtype, str(e)[:200]), sig=dict(engine=eng))
            return res
        for nm, a_, b_ in (("coords", shared_c, keep_c), ("raw_image", shared_raw, keep_raw),
                           ("image", shared_img, keep_img)):
            if a_.dtype != b_.dtype or not np.array_equal(a_, b_):
                pv("caller-array-modified", "refine_com_arr(engine=%r) modified the caller's %s array"
                   % (eng, nm), impl=a_.tolist()[:20], model=b_.tolist()[:20], sig=dict(engine=eng))
                return res
        if r2.shape != out[eng].shape or not np.array_equal(r2, out[eng], equal_nan=True):
            pv("same-arguments-different-numbers",
               "refine_com_arr(engine=%r) on the same arguments (%s start pixels, call order %s) differs "
               "from its first answer" % (eng, shared_c.dtype, "->".join(order)),
               impl=r2.tolist()[:6], model=out[eng].tolist()[:6], sig=dict(engine=eng))
            return res
    res.stat("shared_args_passes")

    # ---- the same picture in another brightness unit ------------------------------------------
    # Multiplying image and raw image by a power of two changes no comparison and no quotient (the
    # centroid, size and ecc are ratios; mass, signal and raw_mass are linear), and is exact in binary
    # floating point: every engine must report the same positions / shapes and exactly scaled
    # brightness columns, however small or large the unit is.
    kpow = [-50, -40, 30][(N + int(sum(sum(s_) for s_ in starts)) + nd) % 3]
    fac = 2.0 ** kpow
    res.stat("unit_scale_2^%d" % kpow)
    lin = [nd] + ([nd + nsize + 2, nd + nsize + 3] if char else [])
    for eng in ("python", "numba"):
        try:
            r3 = np.asarray(com.refine_com_arr(raw64.astype(np.float64) * fac, img64.astype(np.float64) * fac,
                                               tuple(radius), coords.copy(), max_iterations=inp["max_iter"],
                                               engine=eng, shift_thresh=thrf, characterize=char), dtype=float)
        except Exception as e:
            pv("engine-raises", "refine_com_arr(engine=%r) raised %s on the image times 2^%d: %s"
               % (eng, type(e).__name__, kpow, str(e)[:200]), sig=dict(engine=eng))
            return res
        ref = np.asarray(com.refine_com_arr(raw64.astype(np.float64), img64.astype(np.float64), tuple(radius),
                                            coords.copy(), max_iterations=inp["max_iter"], engine=eng,
                                            shift_thresh=thrf, characterize=char), dtype=float)
        exp = ref.copy()
        for c_ in lin:
            exp[:, c_] = ref[:, c_] * fac
        live = ~(np.isnan(ref[:, nd]) | (ref[:, nd] == 0))      # rows inside the property's hypothesis
        if char and nd == 2:
            # ecc is outside this pass: the code divides by (mass - centre + 1e-6), an ABSOLUTE guard, so
            # it is not unit-free by design (and the statement does not name it)
            r3[:, nd + 1 + nsize] = exp[:, nd + 1 + nsize]
        if r3.shape != exp.shape or not np.array_equal(r3[live], exp[live], equal_nan=True):
            j = int(np.argmax([not np.array_equal(a_, b_, equal_nan=True) for a_, b_ in zip(r3[live], exp[live])])) \
                if r3.shape == exp.shape and live.any() else 0
            pv("brightness-unit-dependent",
               "refine_com_arr(engine=%r): with image and raw image multiplied by 2^%d the result is not the "
               "same position / shape with brightness columns scaled by 2^%d" % (eng, kpow, kpow),
               impl=(r3[live][j].tolist() if r3.shape == exp.shape and live.any() else r3.tolist()[:3]),
               model=(exp[live][j].tolist() if live.any() else exp.tolist()[:3]), sig=dict(engine=eng))
            return res
    res.stat("unit_scale_passes")

    moved = False
    sample_rows = []
    for f in range(N):
        rec = recs[f]
        rp, rn = out["python"][f], out["numba"][f]
        if not rec["inside"]:
            res.stat("start_outside_skipped")
            continue
        start_black = measure_at(img64, raw64, radius, starts[f]) is None
        if start_black or float(rp[nd]) == 0.0 or math.isnan(float(rp[nd])):
            # outside the hypothesis "non-zero brightness"
            res.stat("zeromass_excluded")
            if not rec["zeromass"] and not start_black:
                cb("zeromass", "implementation reports mass 0/NaN, model does not", "massAt",
                   impl=rp.tolist(), model=str(rec["mass"]))
            continue
        if rec["zeromass"]:
            res.stat("zeromass_excluded")
            cb("zeromass", "model meets a black mask, implementation reports mass %r" % rp[nd],
               "massAt", impl=rp.tolist())
            continue
        res.stat("features_checked")
        # (a) engine independence — also on borderline cases
        # ecc tolerance scale from reported columns only: centre pixel <= signal, hence
        # mass/(mass - centre + 1e-6) <= mass/(mass - signal + 1e-6)
        es = 1.0
        if char and nd == 2:
            es = abs(float(rp[nd])) / max(1e-6, float(rp[nd]) - float(rp[nd + nsize + 2]) + 1e-6)
        bad = cmp_rows(rp, rn, nd, nsize, char, a_sq=False, b_sq=False, escale=es)
        feat_pv = bool(bad)   # a concrete violation on this feature: no separate model report
        if bad:
            pv("engines-differ", "python and %s differ in %s for start %s" % (kern, bad, starts[f]),
               impl=dict(python=rp.tolist(), numba=rn.tolist()),
               sig=dict(kernel=kern, columns=bad))
        # (b) self-consistency of each engine's row
        orc_ok = True
        for eng, row in (("python", rp), ("numba", rn)):
            c, why = find_mask_centre(img64, raw64, radius, shape, row, char)
            if c is None:
                orc_ok = False
                pv("not-a-mask-measurement", "engine %s, start %s: %s" % (eng, starts[f], why),
                   impl=row.tolist(), sig=dict(engine=eng if eng == "python" else kern))
        # correspondence with the model
        exact_tie = rec["margin"] == 0
        if rec["margin"] < Fraction(1, 10 ** 9) and not (exact_tie and dyadic):
            res.borderline = True
            res.stat("borderline_features")
            continue
        if exact_tie:
            res.stat("exact_tie_features")
        res.stat("evals_%d" % min(rec["evals"], 10))
        res.stat("model_converged" if rec["conv"] else "model_fuel_exhausted")
        if rec["clips"]:
            res.stat("features_clipped")
        if any(c in (r, s - 1 - r) for c, r, s in zip(rec["centre"], radius, shape)):
            res.stat("final_mask_touches_border")
        if rec["evals"] >= 2:
            moved = True
        mrow, escale = model_row(rec, char)
        for eng, row in (("python", rp), (kern, rn)):
            bad = cmp_rows(row, mrow, nd, nsize, char, a_sq=False, b_sq=True,
                           escale=escale if escale else 1.0)
            if bad and orc_ok and not feat_pv:
                cb("model-differs", "model differs from %s in %s for start %s" % (eng, bad, starts[f]),
                   "refineOne / lastCentre / measure", impl=row.tolist(),
                   model=dict(row=mrow, centre=rec["centre"], trace=rec["trace"]),
                   sig=dict(engine=eng, columns=bad))
        if len(sample_rows) < 1:
            sample_rows.append(dict(start=starts[f], python=rp.tolist(), model_centre=rec["centre"],
                                    model_pos=[str(p) for p in rec["pos"]], evals=rec["evals"]))

    # ---- DataFrame wrapper --------------------------------------------------------------------
    w = inp.get("wrapper") or {}
    if w:
        eng = w["engine"]
        names = ["z", "y", "x"][-nd:]
        sizes = ["size"] if iso else ["size_" + n for n in names]
        exp_cols = names + ["mass"] + ((sizes + ["ecc", "signal", "raw_mass"]) if char else [])
        if w["form"] == "array":
            arg, exp_index = coords.copy(), list(range(N))
        else:
            cols = {n: coords[:, j] for j, n in enumerate(names)}
            cols["old"] = np.arange(N) * 1.5
            order = list(cols)
            if w["form"] == "frame_shuffled_cols":
                order = order[::-1]
            arg = pd.DataFrame(cols, columns=order, index=pd.Index(w["index"][:N], name="feat"))
            exp_index = list(w["index"][:N])
        try:
            df = com.refine_com(raw.copy(), img.copy(), tuple(radius), arg,
                                max_iterations=inp["max_iter"], engine=eng, shift_thresh=thrf,
                                characterize=char)
            got_cols, got_index = list(df.columns), [int(v) for v in df.index]
            vals = np.asarray(df.values, dtype=float)
            if got_cols != exp_cols or got_index != exp_index:
                pv("wrapper-layout", "refine_com(%s) columns %s index %s, expected %s / %s"
                   % (w["form"], got_cols, got_index, exp_cols, exp_index), sig=dict(engine=eng))
            elif vals.shape != out[eng].shape or not np.array_equal(vals, out[eng], equal_nan=True):
                pv("wrapper-values", "refine_com(%s, engine=%s) numbers differ from refine_com_arr"
                   % (w["form"], eng), impl=dict(frame=vals.tolist(), arr=out[eng].tolist()),
                   sig=dict(engine=eng))
            res.stat("wrapper_" + w["form"])
        except Exception as e:
            pv("wrapper-raises", "refine_com raised %s: %s" % (type(e).__name__, str(e)[:200]),
               sig=dict(engine=eng))

    res.nontrivial = moved
    if sample_rows:
        res.sample = dict(shape=shape, radius=radius, thr=inp["thr"], max_iter=inp["max_iter"],
                          kernel=kern, **sample_rows[0])
    return res
