"""C16 — refine_leastsq honours bounds, survives failed fits, recovers exact models.

Three streams through the real `trackpy.refine.least_squares`:

  * bounds  : `FitFunctions.validate_bounds` / `compute_bounds` / `vect_from_params(op=mean)` in
              FUNCTION MODE against the Lean model (`C16BOUNDS`) on random bounds dictionaries (all
              key forms, scalar / pair / one-sided, pos/size broadcast vs direct keys, isotropic /
              anisotropic, 2-D/3-D, shared modes with and without groups), values k/8, negative and
              zero starts included.  Direct ORACLE (Fractions, written from the docstring: "the
              narrowest bound is taken", defaults) independent of the model.
  * refine  : `refine_leastsq` END TO END with `scipy.optimize.minimize` WRAPPED (the name as seen
              from `least_squares`): every (x0, bounds, result) recorded, failures injected on a
              seeded schedule (success=False, RefineException from inside the residual, NaN vector,
              NaN objective, result outside the bounds, large jump, foreign ValueError), starts
              inside / at the edge of / outside the image, NaN start parameters, tiny max_rms_dev,
              per-cluster and global level, bounds dictionaries incl. windows that exclude a
              feature.  The recorded optimiser behaviour is replayed into the model's `refineCtl`
              (`C16REFINE`): rows written, cost NaN pattern, values, optimiser calls per cluster
              must agree.  Direct ORACLE from the statement: no exception escapes; failed clusters
              keep every input value and get cost NaN; successful ones lie within requested +
              default bounds (1e-9).
  * accuracy: (supporting evidence for the convergence clause, not provable) noise-free
              gauss / ring / disc images, 2-D/3-D, singles and dimers, starts on the 1.5 px
              sphere: every centre recovered to < 0.1 px.
  * frames  : MULTI-FRAME readers (FramesSequence look-alike, contiguous or sparse frame numbers)
              with feature tables whose rows are frame-ascending / descending / interleaved /
              particle-sorted / rotated, index labels default / permuted integers / strings /
              duplicated / the frame column itself; singles and dimers, out-of-image and NaN-parameter
              clusters, default and shared (cluster / global) parameter modes.  Direct ORACLE BY
              LABEL, from the statement ("the affected features keep their input values ..."): every
              output row is matched with the input row of the same label: identity column, frame
              and foreign columns unchanged; cost NaN <=> all input values kept; clusters that must
              fail are marked; fitted features within the mask radius of THEIR OWN start, signal /
              size / background positive; with default settings on these noise-free frames the
              centres are recovered to < 0.1 px.
              X15 (also in the accuracy stream when nframes > 1): `prepare_subimages` is wrapped at run
              time (arguments bound by name, passed through; the `reader` argument replaced by a
              recording proxy): per call, the indices asked of the reader must equal the model's
              `framesRead frame_nos groups` (op LSQFRAMES: one per cluster, the frame of its first
              member), and the sequence of solver calls must follow the model's `plan` built from the
              returned table's frame / cluster columns (correspondence-break, what="frames-read").
  * history : the result of a call is a function of its arguments: the reference call is made first,
              then 2-5 OTHER calls in the same process (options={'maxiter': 1}, tol, other
              fit_function / param_mode / bounds / constraints / param_val / max_iter, a call that
              raises, a different scene), then the SAME call again: both results must be identical
              (exact, NaN-aware) and satisfy the by-label oracle; the caller's dictionaries, table
              and image are compared with deep copies taken before each call.
"""
import copy
import math
import os
import pickle
import random
import signal
import traceback
import warnings
from fractions import Fraction

import numpy as np

from . import common
from .common import Result

PROP = "C16"
RULE = ("bounds: 1-4 features x (2-D/3-D, iso/anisotropic, gauss/ring) with random param modes, "
        "groups None or a random partition, dictionaries of 0-6 keys over every key form, values "
        "k/8; non-trivial = some side of some parameter has >= 2 requested candidates.  refine: "
        "1-4 clusters (singles/dimers) on noise-free images, starts near/far/edge/outside, random "
        "bounds + modes + fault schedule; non-trivial = a failed and a fitted cluster in the same "
        "call, or a fit of >= 2 rounds, or an active bound.  accuracy: starts exactly 1.5 px off.  "
        "distinct = distinct canonical input.")
ASSUMPTIONS = [
    "bounds / start values are k/8: sums, differences and products with the specs are exact in "
    "float64; quotients p/rho and means over 3 features carry rounding ~1e-16, compared with "
    "relative tolerance 1e-12",
    "relative factors are never 0 (numpy gives +-inf, the Rat model would give 0; the driver "
    "rejects such a dictionary) and never the object np.nan itself",
    "the optimiser is replayed, not modelled: its recorded outputs (Fraction(float), exact) are the "
    "`opt` parameter of refineCtl; rms_dev = sqrt(fun/residual_factor) is computed by the harness "
    "with the same float expression as the code, so the comparison with max_rms_dev is exact",
    "the shift test sum((new-old)^2) < max_shift^2 is evaluated exactly by the model and in "
    "float64 by the code; injected jumps keep it >= 1e-3 away from equality",
    "clusters (static.cluster) are taken from the code (C19's subject); index labels unique except "
    "in the 'dup' layout, which is judged by the direct oracle only",
    "X15 frames-read tie: a prepare_subimages call that raises (cluster outside the image) must have read "
    "a non-empty PREFIX of the model's frames; clusters that fail before their first round make no call, so "
    "the recorded solver calls must be a SUBSEQUENCE of the model's plan (equal to it when every row was "
    "fitted); frame numbers are integers",
    "at least one parameter is not constant (with an empty parameter vector scipy raises ValueError "
    "before any fit is attempted; like max_iter = 0 this is a degenerate configuration, not a failed fit)",
    "max_iter >= 1 (max_iter = 0 raises UnboundLocalError in the code and `unboundRmsDev` in the "
    "model; it is not a failed fit and outside the claim); constraints=None; compute_error=False",
    "frames / history: noise-free images of the fitted model, starts of different clusters > 13 px apart "
    "(the separation), dimers displaced rigidly when `far`, "
    "masks inside the image; `near` starts <= 1.2 px from the truth, signal start 0.9 x truth, size "
    "exact -- the regime of the accuracy stream; the < 0.1 px demand is made only for default "
    "param_mode / bounds / solver options; `far` starts (3-4 px) may fail or succeed",
    "history: every case runs in a forked child of the worker process, so the first call of a case sees "
    "the module state as it was before any polluting call and polluting calls never reach the cases of "
    "the other streams (all recorded inputs replay stand-alone)",
    "history: exact equality of the repeated call is demanded (the code path is deterministic: "
    "SLSQP, numpy); polluting calls are not judged except for escaping exceptions in configurations "
    "where only a fit can fail (solver options / tolerances / max_iter / max_rms_dev)",
    "the caller's table may gain the frame column (refine_leastsq adds `frame`=0 to a table without "
    "one when given a single image); its pre-existing columns and index must be untouched",
    "default bounds are read as: positivity (>= 1e-7) of background/signal/size when no absolute "
    "bound was requested for that parameter, |shift| <= mask radius when no difference bound was "
    "requested for that position; shared (global/cluster) parameters are held to the absolute and "
    "default bounds and to the packed (broadest) difference/relative bounds, as the code documents",
]
MIN_NONTRIVIAL = 20
TOL = 1e-9
EPS = Fraction(1, 10 ** 7)


def init(ctx):
    common.setup_repo_path()
    import logging
    logging.getLogger("trackpy").setLevel(logging.CRITICAL)
    logging.getLogger("trackpy.refine.least_squares").setLevel(logging.CRITICAL)


def F8(k):
    return Fraction(k, 8)


# ------------------------------------------------------------------------------------------
# generation

MODES = ["const", "var", "global", "cluster"]


def gen_dict(rng, ndim, iso, extra, rich=True):
    """bounds dictionary: key -> int (scalar, eighths) | [lo, hi] (eighths or None)"""
    pos = ["z", "y", "x"][-ndim:]
    sizes = ["size"] if iso else ["size_" + c for c in pos]
    names = ["background", "signal"] + pos + sizes + list(extra) + ["pos", "size"]
    d = {}
    for _ in range(rng.choice([0, 1, 2, 3, 4, 6]) if rich else rng.choice([0, 0, 1, 2])):
        base = rng.choice(names)
        form = rng.choice(["", "_abs", "_rel"])
        if form == "":
            lo = rng.choice([None, -40, 0, 1, 8, 16, 40, 80])
            hi = rng.choice([None, 24, 48, 160, 400, 2400])
            if lo is not None and hi is not None and hi < lo and rng.random() < 0.8:
                lo, hi = hi, lo
            v = [lo, hi]
        elif form == "_abs":
            v = rng.choice([0, 1, 2, 4, 8, 12, 40]) if rng.random() < 0.5 else \
                [rng.choice([None, 0, 2, 4, 8, 40]), rng.choice([None, 0, 3, 8, 16, 80])]
        else:
            v = rng.choice([8, 9, 10, 12, 16, 24]) if rng.random() < 0.6 else \
                [rng.choice([None, 8, 10, 12, 16, 4, -8]), rng.choice([None, 8, 11, 12, 20, 6])]
        d[base + form] = v
    return d


def gen_param_mode(rng, ndim, iso, extra):
    pm = {}
    if rng.random() < 0.5:
        pm["signal"] = rng.choice(MODES)
    if rng.random() < 0.4:
        pm["background"] = rng.choice(["const", "global", "cluster"])
    if rng.random() < 0.5:
        pm["size"] = rng.choice(MODES)
    if (not iso) and rng.random() < 0.3:
        pm["size_x"] = rng.choice(MODES)
    if rng.random() < 0.15:
        pm["pos"] = rng.choice(["var", "var", "cluster", "const"])
    if rng.random() < 0.1:
        pm["x"] = rng.choice(MODES)
    for e in extra:
        if rng.random() < 0.4:
            pm[e] = rng.choice(MODES)
    return pm


def gen_bounds_case(rng):
    ndim = rng.choice([2, 2, 3])
    iso = rng.random() < 0.6
    fitfun = rng.choice(["gauss", "gauss", "ring"])
    extra = ["thickness"] if fitfun == "ring" else []
    n = rng.randint(1, 4)
    npar = 2 + ndim + (1 if iso else ndim) + len(extra)
    block = [[rng.choice([-24, -8, 0, 1, 8, 12, 16, 40, 80, 96, 200, 1600]) for _ in range(npar)]
             for _ in range(n)]
    groups = None
    if rng.random() < 0.5:
        lab = [rng.randint(0, 2) for _ in range(n)]
        groups = [[i for i in range(n) if lab[i] == g] for g in sorted(set(lab))]
    radius = [rng.choice([2, 3, 5, 7]) for _ in range(ndim)] if not iso else [rng.choice([3, 5, 6])] * ndim
    return dict(stream="bounds", ndim=ndim, iso=iso, fitfun=fitfun, n=n, block=block, groups=groups,
                radius=radius, param_mode=gen_param_mode(rng, ndim, iso, extra),
                bounds=gen_dict(rng, ndim, iso, extra))


ACTS = ["F", "X", "N", "O", "J", "D"]


def gen_refine_case(rng, i):
    ndim = 3 if rng.random() < 0.12 else 2
    iso = rng.random() < 0.75
    fitfun = "ring" if rng.random() < 0.12 else "gauss"
    extra = ["thickness"] if fitfun == "ring" else []
    ncl = rng.randint(1, 4) if ndim == 2 else rng.randint(1, 2)
    diam = 11 if ndim == 2 else 9
    diameter = diam if iso else ([diam] * (ndim - 1) + [diam + 2])
    cell = 26 if ndim == 2 else 20
    shape = [cell] * (ndim - 1) + [cell * ncl]
    size = 20 if fitfun == "gauss" else 28        # eighths
    feats = []
    for c in range(ncl):
        kind = rng.choice(["near"] * 8 + ["far"] * 3 + ["edge"] * 2 + ["out", "outedge", "outedge", "nanparam"])
        centre = [cell * 4 + rng.randint(-8, 8) for _ in range(ndim - 1)] + \
                 [c * cell * 8 + cell * 4 + rng.randint(-8, 8)]
        if kind == "edge":
            centre[0] = rng.choice([0, 8, 16, (cell - 1) * 8, (cell - 2) * 8])
        members = [centre]
        if rng.random() < 0.4:
            off = [0] * ndim
            off[rng.randrange(ndim)] = rng.choice([44, 48, 56])
            members.append([a + b for a, b in zip(centre, off)])
        for m, tc in enumerate(members):
            if kind in ("near", "edge", "nanparam"):
                st = [t + rng.randint(-6, 6) for t in tc]
            elif kind == "far":
                st = [t + rng.choice([-28, -20, 20, 28]) for t in tc]
            elif kind == "out":
                st = list(tc)
                st[0] = rng.choice([-(diam // 2) * 8 - 16, (cell + diam // 2) * 8 + 24, -400])
            else:   # exactly at the rounding boundary of get_slice
                st = list(tc)
                r0 = diam // 2
                st[0] = rng.choice([-r0 * 8 - 4, -r0 * 8 - 3, -r0 * 8, (cell + r0) * 8 - 4,
                                    (cell + r0) * 8 - 5, (cell + r0 - 1) * 8 + 4])
            feats.append(dict(true=tc, start=st, signal=rng.choice([1200, 1600, 1440]),
                              size=size + rng.choice([0, 0, -2, 2]),
                              nan=(kind == "nanparam" and m == 0)))
    sched = [rng.choice(ACTS) if rng.random() < 0.15 else "real" for _ in range(rng.randint(3, 9))]
    if rng.random() < 0.05:
        sched[rng.randrange(len(sched))] = "V"
    bnds = gen_dict(rng, ndim, iso, extra, rich=False) if rng.random() < 0.6 else {}
    if rng.random() < 0.12:      # an absolute window on the last axis: excludes whole clusters
        bnds["x"] = [rng.choice([0, 40, 80]), rng.choice([cell * 8, cell * 12, cell * 16])]
    pm = gen_param_mode(rng, ndim, iso, extra) if rng.random() < 0.6 else {}
    if not iso:
        pm.pop("size", None) if rng.random() < 0.5 else None
    return dict(stream="refine", ndim=ndim, diameter=diameter, fitfun=fitfun, shape=shape,
                feats=feats, bg=rng.choice([0, 0, 80]), param_mode=pm, bounds=bnds,
                max_iter=rng.choice([1, 2, 3, 10, 10]), max_shift=rng.choice([8, 8, 4, 16]),
                max_rms_dev=rng.choice(["1"] * 8 + ["1e-9", "0.001"]), schedule=sched,
                index=rng.choice(["range"] * 6 + ["shuffled"] * 3 + ["dup"]),
                order=rng.randint(0, 10 ** 6), prior_cost=(i % 3 == 1))


def gen_accuracy_case(rng):
    ndim = rng.choice([2, 2, 3])
    fitfun = rng.choice(["gauss", "ring", "disc"])
    dimer = rng.random() < 0.5
    inp = dict(stream="accuracy", ndim=ndim, fitfun=fitfun, dimer=dimer, seed=rng.randint(0, 10 ** 9))
    # a SEQUENCE of frames in which the features move, and parameter modes other than the default
    # (shared over all frames / held constant): the clause speaks of "images drawn from the model"
    # and quantifies over parameter modes
    if rng.random() < 0.5:
        inp["nframes"] = rng.choice([2, 3]) if ndim == 2 else 2
    inp["pm"] = rng.choice([None, None, {"size": "global"}, {"signal": "global"},
                            {"background": "const"}, {"size": "cluster"},
                            {"signal": "global", "size": "global"}])
    return inp


# ---- scenes of the frames / history streams ---------------------------------------------------
SC_SHAPE = (40, 60)
SC_DIAM = 13
SC_CELLS = [(20.0, 14.0), (20.0, 46.0)]       # features of different cells stay > 13 px apart (see gen_scene)
SC_SIZE = {"gauss": 2.5, "ring": 4.0}
SC_SEP = {"gauss": 2.5, "ring": 2.2}          # dimer separation in units of size (as the accuracy stream)
ORDERS = ["asc", "desc", "interleaved", "interleaved", "particle", "rotated"]
INDEXES = ["range", "range", "shuffled", "str", "dup", "tindex"]


def r3(x):
    return round(float(x), 3)


def gen_scene(rng, multi, allow_fail=True):
    fitfun = "ring" if rng.random() < 0.15 else "gauss"
    # a table made of integers only (pixel positions of maxima, integer signal / size / background):
    # single gauss features, no NaN start values
    all_int = fitfun == "gauss" and rng.random() < 0.15
    size = SC_SIZE[fitfun]
    nfr = rng.randint(2, 4) if multi else 1
    fnos = sorted(rng.sample(range(9), nfr)) if (multi and rng.random() < 0.35) else list(range(nfr))
    feats = []
    for fno in fnos:
        cells = [0, 1] if rng.random() < 0.6 else [rng.randrange(2)]
        for cell in cells:
            cy, cx = SC_CELLS[cell]
            kind = rng.choice(["near"] * 15 + (["far", "out", "out", "nan", "nan"] if allow_fail else []))
            if all_int and kind == "nan":
                kind = "near"
            centre = [cy + rng.uniform(-1, 1), cx + rng.uniform(-1, 1)]
            members = [centre]
            if rng.random() < 0.4 and not all_int:
                ang = rng.uniform(0, 2 * math.pi)
                d = size * SC_SEP[fitfun] / 2
                members = [[centre[0] + d * math.sin(ang), centre[1] + d * math.cos(ang)],
                           [centre[0] - d * math.sin(ang), centre[1] - d * math.cos(ang)]]
            # every member ends up more than the mask radius outside the image (true y in 14.6..25.4, x in 8.6..51.4)
            shift = rng.choice([[-45.0, 0.0], [SC_SHAPE[0] + 12.0, 0.0], [-400.0, 0.0], [0.0, -70.0]])
            far_ang, far_rad = rng.uniform(0, 2 * math.pi), rng.uniform(3.0, 3.8)
            for m, tc in enumerate(members):
                ang = rng.uniform(0, 2 * math.pi)
                rad = rng.uniform(0.2, 1.2)
                if kind == "far":           # the whole cluster is displaced rigidly: it stays ONE cluster
                    ang, rad = far_ang, far_rad
                st = [tc[0] + rad * math.sin(ang), tc[1] + rad * math.cos(ang)]
                if kind == "out":
                    st = [tc[0] + shift[0], tc[1] + shift[1]]
                if all_int:     # whole pixels: the pixel nearest to the true centre (<= 0.71 px off)
                    st = [float(round(tc[0])), float(round(tc[1]))] if kind == "near" else \
                         [float(round(st[0])), float(round(st[1]))]
                feats.append(dict(frame=fno, cell=cell, true=[r3(tc[0]), r3(tc[1])], start=[r3(st[0]), r3(st[1])],
                                  kind=kind, nan=(kind == "nan" and m == 0)))
    # a completely dark (all-zero) frame with features listed in it: their fits cannot succeed, the call
    # must survive it (rows keep their values, cost NaN) and the other frames must be unaffected
    dark = None
    if allow_fail and rng.random() < (0.15 if multi else 0.04):
        dark = rng.choice(fnos)
        for f in feats:
            if f["frame"] == dark:
                f["kind"], f["nan"] = "dark", False
    return dict(fitfun=fitfun, multi=bool(multi), nframes=(max(fnos) + 1 if multi else 1), feats=feats, dark_frame=dark,
                bg=rng.choice([0, 10]), order=rng.choice(ORDERS) if multi else rng.choice(["asc", "interleaved"]),
                index=rng.choice(INDEXES) if multi else rng.choice(["range", "shuffled", "str", "dup"]),
                oseed=rng.randrange(10 ** 6), extra_cols=rng.random() < 0.5,
                # presentation of the same data: column order, image dtype, integer-typed start columns
                # (`signal_int`: an int64 signal column; `all_int`: every parameter column int64)
                colorder=rng.random() < 0.3, signal_int=(all_int or rng.random() < 0.2), all_int=all_int,
                img_f32=rng.random() < 0.3)


PM_CHOICES = [{"size": "var"}, {"size": "cluster"}, {"signal": "cluster"}, {"background": "const"},
              {"size": "global"}, {"signal": "global"}, {"background": "global", "size": "var"},
              {"pos": "var", "signal": "var", "size": "var"}]
BOUNDS_CHOICES = [{"pos_abs": 3.0}, {"signal_rel": 2.0}, {"size": [1.0, 6.0]}, {"x_abs": [2.0, 4.0], "signal_rel": [1.5, 3.0]},
                  {"size_rel": 1.5, "pos_abs": 5.0}]


def gen_call(rng, scene, clean_p):
    """keyword arguments of one refine_leastsq call (JSON form)"""
    call = dict(fit_function=scene["fitfun"])
    if rng.random() < clean_p:
        return call
    if rng.random() < 0.6:
        call["param_mode"] = dict(rng.choice(PM_CHOICES))
    if rng.random() < 0.35:
        call["bounds"] = copy.deepcopy(rng.choice(BOUNDS_CHOICES))
    if rng.random() < 0.2:
        call["max_iter"] = rng.choice([1, 2, 5])
    if rng.random() < 0.15:
        call["options"] = dict(maxiter=rng.choice([30, 200]))
    if rng.random() < 0.1:
        call["tol"] = rng.choice([1e-5, 1e-8])
    return call


POLLUTERS = ["maxiter1", "maxiter1", "options_ftol", "tol", "fitfun", "param_mode", "bounds", "constraints",
             "param_val", "max_iter1", "max_rms_dev", "raises", "other_scene", "custom_fitfun", "inv_series",
             "global", "separation"]


def gen_frames_case(rng):
    scene = gen_scene(rng, True)
    return dict(stream="frames", scene=scene, call=gen_call(rng, scene, 0.7))


def gen_history_case(rng):
    scene = gen_scene(rng, rng.random() < 0.4, allow_fail=rng.random() < 0.5)
    other = gen_scene(rng, rng.random() < 0.5)
    pol = [rng.choice(POLLUTERS) for _ in range(rng.randint(2, 5))]
    if rng.random() < 0.5 and not any(p.startswith("maxiter1") for p in pol):
        pol[rng.randrange(len(pol))] = "maxiter1"
    return dict(stream="history", scene=scene, other=other, call=gen_call(rng, scene, 0.5),
                polluters=pol, pseed=rng.randrange(10 ** 6))


def gen_cases(ctx):
    for inp in ctx.corpus():
        yield inp
    nb, nr, na = ctx.n(1500, 12000), ctx.n(700, 6000), ctx.n(80, 800)
    nf, nh = ctx.n(300, 3000), ctx.n(160, 1600)
    for i in range(max(nb, nr, na, nf, nh)):
        if i < nb:
            yield gen_bounds_case(ctx.rng("bounds", i))
        if i < nr:
            yield gen_refine_case(ctx.rng("refine", i), i)
        if i < na:
            yield gen_accuracy_case(ctx.rng("accuracy", i))
        if i < nf:
            yield gen_frames_case(ctx.rng("frames", i))
        if i < nh:
            yield gen_history_case(ctx.rng("history", i))


# ------------------------------------------------------------------------------------------
# shared helpers

def make_ff(ls, fitfun, ndim, iso, pm):
    with warnings.catch_warnings():
        warnings.simplefilter("ignore")
        return ls.FitFunctions(fitfun, ndim, iso, dict(pm) if pm else None)


def kinds_of(ff):
    out = []
    for p in ff.params:
        if p == "background":
            k = "b"
        elif p == "signal":
            k = "s"
        elif p in ff.pos_columns:
            k = "p%d" % ff.pos_columns.index(p)
        elif p in ff.size_columns:
            k = "z"
        else:
            k = "o"
        out.append(k)
    return out


def py_dict(d):
    """JSON dictionary (eighths) -> what the user would pass"""
    out = {}
    for k, v in d.items():
        if isinstance(v, list):
            out[k] = tuple(np.nan if a is None else a / 8.0 for a in v)
        else:
            out[k] = v / 8.0
    return out


def dict_field(d):
    toks = []
    for k, v in d.items():
        if isinstance(v, list):
            toks.append("%s=%s:%s" % (k, *["n" if a is None else common.rat_str(F8(a)) for a in v]))
        else:
            toks.append("%s=%s" % (k, common.rat_str(F8(v))))
    return " ".join(toks)


def bstr(x):
    """float bound -> protocol token"""
    x = float(x)
    if math.isnan(x) or math.isinf(x):
        return "n"
    return common.rat_str(Fraction(x))


def close(a, b, tol=1e-12):
    a, b = float(a), float(b)
    return abs(a - b) <= tol * max(1.0, abs(a), abs(b))


def tok_close(tok, x, tol=1e-12):
    """model token (n | rational) vs float (nan/inf = n)"""
    x = float(x)
    if tok == "n":
        return math.isnan(x) or math.isinf(x)
    return math.isfinite(x) and close(Fraction(tok), x, tol)


def oracle_spec(d, name, kind, radius):
    """candidates requested for one parameter, read off the docstring: returns
    (abs (lo,hi), diff (lo,hi), rel (lo,hi)) as Fractions / None, defaults included"""
    def get(key):
        if key not in d:
            return None
        v = d[key]
        if isinstance(v, list):
            return tuple(None if a is None else F8(a) for a in v)
        return (F8(v), F8(v))
    fam = "pos" if kind.startswith("p") else ("size" if kind == "z" else None)
    res = []
    for suffix in ("", "_abs", "_rel"):
        v = get(name + suffix)
        if v is None and fam is not None:
            v = get(fam + suffix)
        res.append(v)
    a, df, rl = res
    if a is None and kind in ("b", "s", "z"):
        a = (EPS, None)
    if df is None and kind.startswith("p"):
        r = Fraction(radius[int(kind[1:])])
        df = (r, r)
    nn = (None, None)
    return a or nn, df or nn, rl or nn


def oracle_bounds(spec, p):
    a, df, rl = spec
    lows = [x for x in (None if df[0] is None else p - df[0],
                        None if rl[0] is None else p / rl[0], a[0]) if x is not None]
    highs = [x for x in (None if df[1] is None else p + df[1],
                         None if rl[1] is None else p * rl[1], a[1]) if x is not None]
    return (max(lows) if lows else None), (min(highs) if highs else None), len(lows), len(highs)


def pack_layout(modes, n, groups):
    """list of (column j, list of feature indices sharing the entry) in vector order"""
    out = []
    for j, m in enumerate(modes):
        if m == 0:
            continue
        if m == 1:
            out += [(j, [i]) for i in range(n)]
        elif m == 2 or groups is None:
            out.append((j, list(range(n))))
        else:
            out += [(j, list(g)) for g in groups]
    return out


# ------------------------------------------------------------------------------------------
# stream 1: bounds

def run_bounds(ctx, inp, res):
    from trackpy.refine import least_squares as ls
    ndim, iso, n = inp["ndim"], inp["iso"], inp["n"]
    ff = make_ff(ls, inp["fitfun"], ndim, iso, inp["param_mode"])
    kinds = kinds_of(ff)
    npar = len(ff.params)
    block = [row[:npar] for row in inp["block"]]
    params = np.array(block, dtype=float) / 8.0
    groups = inp["groups"]
    garg = None if groups is None else [[np.array(g) for g in groups]]
    radius = inp["radius"]
    d = inp["bounds"]
    res.stat("bounds_cases")
    res.stat("bounds_keys", len(d))
    res.stat("bounds_groups_given" if groups is not None else "bounds_groups_none")
    for m in set(ff.modes):
        res.stat("bounds_has_mode_%d" % m)
    specs = [oracle_spec(d, p, k, radius) for p, k in zip(ff.params, kinds)]
    if any(s[2][0] == 0 for s in specs):
        res.stat("bounds_skipped_rel_zero")
        return
    try:
        with warnings.catch_warnings():
            warnings.simplefilter("ignore")
            vb = ff.validate_bounds(py_dict(d), radius=tuple(radius))
            fb = ff.compute_bounds(vb, params, garg)
            x0 = ls.vect_from_params(params, ff.modes, garg, operation=np.mean)
    except Exception as e:
        res.violation("property-violation", "bounds functions raised %s: %s" % (type(e).__name__, e),
                      signature=dict(stream="bounds", what="raises", error=type(e).__name__))
        return
    # ---- direct oracle: narrowest requested bound, defaults, broadest when shared ------------
    lay = pack_layout(ff.modes, n, groups)
    multi = False
    bad = None
    if len(lay) != len(fb):
        bad = "packed length %d, expected %d" % (len(fb), len(lay))
    else:
        for (j, members), (lo, hi) in zip(lay, fb):
            per = [oracle_bounds(specs[j], F8(block[i][j])) for i in members]
            multi = multi or any(q[2] >= 2 or q[3] >= 2 for q in per)
            wl = None if any(q[0] is None for q in per) else min(q[0] for q in per)
            wh = None if any(q[1] is None for q in per) else max(q[1] for q in per)
            okl = (wl is None and lo == -np.inf) or (wl is not None and math.isfinite(lo) and close(lo, wl))
            okh = (wh is None and hi == np.inf) or (wh is not None and math.isfinite(hi) and close(hi, wh))
            if not (okl and okh):
                bad = "parameter %s features %r: code (%r, %r), narrowest requested (%s, %s)" % (
                    ff.params[j], members, lo, hi, wl, wh)
                break
    res.nontrivial = multi
    if bad:
        res.violation("property-violation", "compute_bounds does not return the narrowest requested "
                      "bound: " + bad, impl=[list(map(float, b)) for b in fb],
                      signature=dict(stream="bounds", what="not-narrowest"))
    # ---- correspondence ------------------------------------------------------------------
    req = "C16BOUNDS %s | %s | %s | %s | %s | %s" % (
        " ".join("%s:%s" % (p, k) for p, k in zip(ff.params, kinds)),
        ",".join(str(r) for r in radius), dict_field(d), ",".join(str(m) for m in ff.modes),
        "-" if groups is None else ";".join(",".join(str(i) for i in g) for g in groups),
        ";".join(",".join(common.rat_str(F8(block[i][j])) for i in range(n)) for j in range(npar)))
    m = common.kv(ctx.ask(req))
    if "abs" not in m:
        res.violation("harness-error", "C16BOUNDS answered %r to %s" % (m, req))
        return
    ok = True
    for name, arr in (("abs", vb[0]), ("diff", vb[1]), ("rel", vb[2])):
        toks = [t.split(":") for t in m[name].split(",")]
        ok = ok and len(toks) == npar and all(
            tok_close(toks[j][s], arr[s, j]) for j in range(npar) for s in (0, 1))

    def lst(key):
        v = m.get(key)
        return v.split(",") if isinstance(v, str) and v else []
    ok = ok and len(lst("lo")) == len(fb) and all(tok_close(t, b[0]) for t, b in zip(lst("lo"), fb))
    ok = ok and len(lst("hi")) == len(fb) and all(tok_close(t, b[1]) for t, b in zip(lst("hi"), fb))
    ok = ok and len(lst("x0")) == len(x0) and all(tok_close(t, v) for t, v in zip(lst("x0"), x0))
    if m.get("infeasible") == "1":
        res.stat("bounds_infeasible")
    if not ok and not bad:
        res.violation("correspondence-break", "model validateBounds/computeBounds differs from the code",
                      impl=dict(abs=vb[0].tolist(), diff=vb[1].tolist(), rel=vb[2].tolist(),
                                bounds=[list(map(float, b)) for b in fb], x0=list(map(float, x0))),
                      model=m, broken="validateBounds / computeBounds / packCols",
                      signature=dict(stream="bounds", what="model-differs"))


# ------------------------------------------------------------------------------------------
# stream 2: refine_leastsq end to end

def draw(ls, shape, centres, fitfun, size, signal, extra, bg):
    ndim = len(shape)
    ff = ls.FitFunctions(fitfun, ndim, True)
    idx = np.indices(shape).astype(float)
    im = np.full(shape, float(bg))
    for c in centres:
        r2 = sum(((idx[a] - c[a]) / size) ** 2 for a in range(ndim))
        im += signal * ff.fun(r2.ravel(), extra, ndim).reshape(shape)
    return im


def build_table(inp, ff):
    import pandas as pd
    ndim = inp["ndim"]
    pos = ["z", "y", "x"][-ndim:]
    feats = inp["feats"]
    data = {c: [f["start"][a] / 8.0 for f in feats] for a, c in enumerate(pos)}
    data["signal"] = [np.nan if f["nan"] else f["signal"] / 8.0 for f in feats]
    for sc in ff.size_columns:
        data[sc] = [f["size"] / 8.0 for f in feats]
    data["tag"] = list(range(len(feats)))
    data["mass"] = [1000 + 3 * i for i in range(len(feats))]
    if inp.get("prior_cost"):
        # the table is the output of an earlier refine_leastsq pass: it already has a (finite) cost
        data["cost"] = [0.25 + 0.125 * i for i in range(len(feats))]
    t = pd.DataFrame(data)
    import random
    order = list(range(len(feats)))
    random.Random(inp.get("order", 0)).shuffle(order)
    t = t.iloc[order]
    lay = inp.get("index", "range")
    if lay == "range":
        t = t.reset_index(drop=True)
    elif lay == "shuffled":
        t.index = pd.Index([7 + 5 * i for i in order])
    elif lay == "dup":
        t.index = pd.Index([i // 2 for i in range(len(order))])
    return t


class Recorder:
    def __init__(self, ls, schedule, residual_factor):
        self.ls, self.schedule, self.rf = ls, schedule, residual_factor
        self.events = []
        self.k = 0
        self.real = ls.minimize

    def minimize(self, fun, x0, bounds=None, constraints=(), jac=None, **kw):
        act = self.schedule[self.k % len(self.schedule)]
        self.k += 1
        x0 = np.array(x0, dtype=float)
        rec = dict(act=act, x0=x0.copy(), bounds=np.array(bounds, dtype=float).copy(), out=None)
        self.events.append(("min", rec))
        if act == "V":
            rec["out"] = "R"
            raise ValueError("injected foreign exception")
        if act == "X":
            rec["out"] = "F"
            fun(np.full(len(x0), np.nan))       # the real residual raises RefineException
            raise AssertionError("residual accepted NaN")
        try:
            with warnings.catch_warnings():
                warnings.simplefilter("ignore")
                r = self.real(fun, x0, bounds=bounds, constraints=constraints, jac=jac, **kw)
        except self.ls.RefineException:
            rec["out"] = "F"
            raise
        except Exception as e:
            rec["out"] = "R"
            rec["exc"] = "%s: %s" % (type(e).__name__, e)
            raise
        b = rec["bounds"]
        if act == "F":
            r["success"] = False
            r["message"] = "injected failure"
        elif act == "N":
            r["x"] = np.full(len(x0), np.nan)
        elif act == "D":
            r["fun"] = np.nan
        elif act == "O" and len(x0):
            x = np.array(r["x"], dtype=float)
            fin = [j for j in range(len(x)) if np.isfinite(b[j, 1])]
            if fin:
                x[fin[-1]] = b[fin[-1], 1] + 1.0
            else:
                fin = [j for j in range(len(x)) if np.isfinite(b[j, 0])]
                if fin:
                    x[fin[0]] = b[fin[0], 0] - 1.0
                else:
                    rec["act"] = "real"
            r["x"] = x
        elif act == "J" and len(x0):
            x = np.array(r["x"], dtype=float)
            for j in range(len(x)):
                if np.isfinite(b[j, 0]) and np.isfinite(b[j, 1]) and b[j, 1] - b[j, 0] >= 4:
                    x[j] = np.floor(b[j, 1] * 8) / 8.0          # a position: jump to its upper bound
            r["x"] = x
        if not r["success"]:
            rec["out"] = "F"
        else:
            fun_v = float(r["fun"])
            with np.errstate(invalid="ignore"):
                dev = np.sqrt(fun_v / self.rf)
            dv = "n" if not math.isfinite(dev) else common.rat_str(Fraction(float(dev)))
            xs = np.array(r["x"], dtype=float)
            rec["x"] = xs.copy()
            rec["dev"] = float(dev)
            if np.isnan(xs).all() and len(xs):
                rec["out"] = "N:" + dv
            elif not np.isfinite(xs).all():
                rec["out"] = "?"            # partly non-finite vector: outside the model
            else:
                rec["out"] = "K:%s:%s" % (dv, ",".join(common.rat_str(Fraction(float(v))) for v in xs))
        return r


def run_refine(ctx, inp, res):
    import pandas as pd
    from trackpy.refine import least_squares as ls
    ndim = inp["ndim"]
    pos = ["z", "y", "x"][-ndim:]
    diameter = inp["diameter"]
    dt = tuple(diameter) if isinstance(diameter, list) else (diameter,) * ndim
    iso = len(set(dt)) == 1
    radius = [x // 2 for x in dt]
    fitfun = inp["fitfun"]
    extra = {"ring": [0.2], "gauss": [], "disc": [0.5]}[fitfun]
    ff = make_ff(ls, fitfun, ndim, iso, inp["param_mode"])
    kinds = kinds_of(ff)
    shape = inp["shape"]
    feats = inp["feats"]
    true_in = [[v / 8.0 for v in f["true"]] for f in feats]
    im = draw(ls, shape, true_in, fitfun, 2.5 if fitfun == "gauss" else 3.5, 200.0, extra, inp["bg"] / 8.0)
    t = build_table(inp, ff)
    before = t.copy(deep=True)
    d = inp["bounds"]
    max_iter, max_shift = inp["max_iter"], inp["max_shift"] / 8.0
    max_dev = float(inp["max_rms_dev"])
    rf = 100000.0
    lay = inp.get("index", "range")
    res.stat("refine_cases")
    res.stat("refine_index_" + lay)
    res.stat("refine_ndim_%d" % ndim)
    res.stat("refine_features", len(feats))
    sig0 = dict(stream="refine", index=("duplicate" if lay == "dup" and len(feats) > 1 else "unique"))

    rec = Recorder(ls, inp["schedule"], rf)
    orig_cb = ls.FitFunctions.compute_bounds

    def cb(self, bounds, params, *args, **kwargs):           # extra parameters are passed through
        out = orig_cb(self, bounds, params, *args, **kwargs)
        rec.events.append(("cb", dict(params=np.array(params, dtype=float).copy(), bounds=np.array(out).copy())))
        return out
    exc = None
    out = None
    ls.minimize = rec.minimize
    ls.FitFunctions.compute_bounds = cb
    try:
        with warnings.catch_warnings():
            warnings.simplefilter("ignore")
            out = ls.refine_leastsq(t, im, diameter, fit_function=fitfun,
                                    param_mode=dict(inp["param_mode"]) or None,
                                    bounds=py_dict(d) or None, max_iter=max_iter,
                                    max_shift=max_shift, max_rms_dev=max_dev)
    except Exception as e:        # judged below
        exc = e
    finally:
        ls.minimize = rec.real
        ls.FitFunctions.compute_bounds = orig_cb

    mins = [e for k, e in rec.events if k == "min"]
    for e in mins:
        res.stat("opt_act_" + e["act"])
    res.stat("opt_calls", len(mins))
    injected = {e["act"] for e in mins}

    # ---- the prepared table (what the loop starts from) and the clusters ---------------------
    f0 = ls.cluster(before.copy(deep=True), dt, pos, "frame")
    for col in set(ff.params) - set(f0.columns):
        f0[col] = ff.default[col]
    nrows = len(f0)
    tags = [int(v) for v in f0["tag"].values]
    keys = sorted(set(zip(f0["frame"].values.tolist(), f0["cluster"].values.tolist())))
    clusters = [[i for i in range(nrows) if (f0["frame"].values[i], f0["cluster"].values[i]) == k]
                for k in keys]
    is_global = any(m == 2 for m in ff.modes)
    res.stat("refine_level_global" if is_global else "refine_level_cluster")
    P0 = f0[ff.params].values.astype(float)
    blocks = [list(range(nrows))] if is_global else clusters

    # ---- split the recorded events per outer iteration ---------------------------------------
    per_tag = []
    ev = list(rec.events)
    pos_e = 0
    for idx in blocks:
        finite = bool(np.isfinite(P0[idx]).all())
        cur = dict(idx=idx, finite=finite, cb=None, mins=[])
        if finite and pos_e < len(ev) and ev[pos_e][0] == "cb":
            cur["cb"] = ev[pos_e][1]
            pos_e += 1
            while pos_e < len(ev) and ev[pos_e][0] == "min":
                cur["mins"].append(ev[pos_e][1])
                pos_e += 1
        per_tag.append(cur)
    leftover = len(ev) - pos_e

    def infeasible_rec(c):
        return c["cb"] is not None and bool((c["cb"]["bounds"][:, 0] > c["cb"]["bounds"][:, 1]).any())

    # ---- ORACLE 1: no exception escapes because a fit failed ---------------------------------
    feas = 0 if any((e["bounds"][:, 0] > e["bounds"][:, 1]).any() for e in mins) else 1
    if exc is not None:
        last = mins[-1] if mins else None
        if isinstance(exc, ValueError) and last is not None and last["act"] == "V":
            res.stat("refine_injected_foreign_exception")        # named gap: outside the claim
        elif last is not None and len(last["x0"]) == 0:
            res.stat("refine_nothing_to_fit")    # every parameter constant: no fit is attempted at all
            return
        elif last is not None and last["out"] == "R" and (last["bounds"][:, 0] > last["bounds"][:, 1]).any():
            res.stat("refine_raised_infeasible")
            j = int(np.argmax(last["bounds"][:, 0] > last["bounds"][:, 1]))
            res.violation("property-violation",
                          "refine_leastsq raised %s (%s): the requested bounds leave no admissible value "
                          "for one feature (lb %r > ub %r); the fit of that feature cannot succeed, yet the "
                          "whole call aborts instead of marking it failed (cost NaN)"
                          % (type(exc).__name__, exc, float(last["bounds"][j, 0]), float(last["bounds"][j, 1])),
                          impl="%s: %s" % (type(exc).__name__, exc),
                          signature=dict(sig0, what="raises", error=type(exc).__name__,
                                         cause="infeasible-bounds"))
        else:
            res.violation("property-violation", "refine_leastsq raised %s: %s" % (type(exc).__name__, exc),
                          impl="%s: %s" % (type(exc).__name__, exc),
                          signature=dict(sig0, what="raises", error=type(exc).__name__))
            return

    # ---- ORACLE 2/3 on the returned table ----------------------------------------------------
    nfail = nfit = 0
    active = False
    oracle_bad = False
    if out is not None:
        if sorted(int(v) for v in out["tag"].values) != sorted(tags) or len(out) != nrows:
            res.violation("property-violation", "row set changed", signature=dict(sig0, what="rows-changed"))
            return
        pin = sorted((repr(l), int(tg)) for l, tg in zip(before.index.tolist(), before["tag"].values))
        pout = sorted((repr(l), int(tg)) for l, tg in zip(out.index.tolist(), out["tag"].values))
        res.stat("refine_label_checks")
        if pin != pout:
            res.violation("property-violation", "by index LABEL the output rows are other features' rows: "
                          "(label, tag) pairs %r -> %r" % (pin, pout),
                          signature=dict(sig0, what="label-row-mismatch"))
            return
        o = out.set_index("tag", drop=False)
        i0 = f0.set_index("tag", drop=False)
        incols = list(before.columns)
        specs = [oracle_spec(d, p, k, radius) for p, k in zip(ff.params, kinds)]
        for c, cur in zip(clusters if not is_global else clusters, [None] * len(clusters)):
            ctags = [tags[i] for i in c]
            costs = [float(o.loc[tg, "cost"]) for tg in ctags]
            acts_here = set()
            for pt in per_tag:
                if is_global or pt["idx"] == c:
                    acts_here |= {e["act"] for e in pt["mins"]}
            failed = all(math.isnan(v) for v in costs)
            if not failed and any(math.isnan(v) for v in costs):
                oracle_bad = True
                res.violation("property-violation", "cost is NaN for part of a cluster only: %r" % costs,
                              signature=dict(sig0, what="cost-mixed"))
                continue
            if failed:
                nfail += 1
                if "D" in acts_here:
                    continue         # injected NaN objective with success=True: accepted by design
                for tg in ctags:
                    for col in list(i0.columns):
                        if col in ("cluster", "cluster_size", "cost"):
                            continue         # `cost` is the column that MARKS the failure (NaN)
                        a, b_ = o.loc[tg, col], i0.loc[tg, col]
                        same = (a == b_) or (isinstance(a, float) and isinstance(b_, float)
                                              and math.isnan(a) and math.isnan(b_))
                        if not same:
                            oracle_bad = True
                            res.violation("property-violation",
                                          "feature tag=%d of a FAILED cluster (cost NaN) does not keep its "
                                          "input value in column %r: %r -> %r" % (tg, col, b_, a),
                                          impl=dict(tag=tg, column=col, before=float(b_), after=float(a)),
                                          signature=dict(sig0, what="failed-row-changed"))
                            break
                    if oracle_bad:
                        break
            else:
                nfit += 1
                if "O" in acts_here or "N" in acts_here:
                    continue         # the injected result broke the optimiser's contract
                share = list(range(nrows)) if is_global else c
                for j, (p, m_) in enumerate(zip(ff.params, ff.modes)):
                    if m_ == 0:
                        continue
                    for i in c:
                        tg = tags[i]
                        v = float(o.loc[tg, p])
                        if m_ == 1:
                            members = [i]
                        elif m_ == 2 or not is_global:
                            members = share
                        else:
                            members = c
                        if not np.isfinite(P0[members, j]).all():
                            continue
                        per = [oracle_bounds(specs[j], Fraction(float(P0[q, j]))) for q in members]
                        wl = None if any(q[0] is None for q in per) else min(q[0] for q in per)
                        wh = None if any(q[1] is None for q in per) else max(q[1] for q in per)
                        tol = TOL * max(1.0, abs(v))
                        if (wl is not None and v < float(wl) - tol) or (wh is not None and v > float(wh) + tol):
                            oracle_bad = True
                            res.violation("property-violation",
                                          "fitted %s=%r of feature tag=%d lies outside its requested/default "
                                          "bounds [%s, %s]" % (p, v, tg, wl, wh),
                                          impl=dict(tag=tg, param=p, value=v),
                                          signature=dict(sig0, what="outside-bounds", param=p))
                            break
                        if (wl is not None and abs(v - float(wl)) < 1e-6) or \
                                (wh is not None and abs(v - float(wh)) < 1e-6):
                            active = True
                    if oracle_bad:
                        break
        # a cluster that must have failed according to the statement
        for pt in per_tag:
            idx = pt["idx"]
            must = None
            if not pt["finite"]:
                must = "non-finite start parameter"
            elif pt["mins"] and pt["mins"][-1]["out"] == "F":
                must = "optimiser reported failure"
            elif pt["mins"] and pt["mins"][-1]["out"].startswith("K") and "D" not in {e["act"] for e in pt["mins"]} \
                    and pt["mins"][-1]["dev"] > max_dev:
                must = "rms deviation above max_rms_dev"
            elif not is_global and all(
                    any(round(float(P0[i, 2 + a])) < -radius[a] or round(float(P0[i, 2 + a])) >= shape[a] + radius[a]
                        for a in range(ndim)) for i in idx):
                must = "start outside the image"
            if must:
                res.stat("refine_mustfail_" + must.split()[0])
                bad_t = [tags[i] for i in idx if not math.isnan(float(o.loc[tags[i], "cost"]))]
                if bad_t:
                    oracle_bad = True
                    res.violation("property-violation", "%s, but cost is not NaN for tags %r" % (must, bad_t),
                                  signature=dict(sig0, what="failure-not-marked", cause=must.split()[0]))
        # untouched columns / caller's table
        for col in ("mass",):
            if [int(o.loc[tg, col]) for tg in tags] != [int(i0.loc[tg, col]) for tg in tags]:
                oracle_bad = True
                res.violation("property-violation", "column %r changed" % col,
                              signature=dict(sig0, what="other-column-changed"))
    res.stat("refine_clusters_failed", nfail)
    res.stat("refine_clusters_fitted", nfit)
    multi_round = any(len(pt["mins"]) >= 2 for pt in per_tag)
    if multi_round:
        res.stat("refine_multi_round")
    if active:
        res.stat("refine_active_bound")
    res.nontrivial = (nfail >= 1 and nfit >= 1) or multi_round or active

    if lay == "dup" and len(feats) > 1:
        return            # positional model does not describe label collisions; oracle only
    if any(e["out"] == "?" for e in mins) or leftover:
        res.stat("refine_outside_model")
        return

    # ---- CORRESPONDENCE: replay into the model -----------------------------------------------
    trace = "!".join(";".join(e["out"] for e in pt["mins"]) for pt in per_tag)
    table = ";".join(",".join(bstr(P0[i, j]) for i in range(nrows)) for j in range(len(ff.params)))
    req = "C16REFINE %s | %s | %s | %s | %d %s %s %d %d | %s | %s | %s | %s" % (
        " ".join("%s:%s" % (p, k) for p, k in zip(ff.params, kinds)),
        ",".join(str(r) for r in radius), ",".join(str(s) for s in shape), dict_field(d),
        max_iter, common.rat_str(Fraction(max_shift)), common.rat_str(Fraction(max_dev)), feas, ndim,
        ",".join(str(m) for m in ff.modes),
        ";".join(",".join(str(i) for i in c) for c in clusters), table, trace)
    m = common.kv(ctx.ask(req))
    st = m.get("status")
    if st is None:
        res.violation("harness-error", "C16REFINE answered %r" % (m,))
        return
    res.stat("model_status_" + str(st).split(":")[0])
    used_m = m.get("used", "")
    used_m = used_m.split(",") if isinstance(used_m, str) and used_m else []
    used_c = [str(len(pt["mins"])) for pt in per_tag]
    diff = None
    if exc is not None:
        if not str(st).startswith("error"):
            diff = "code raised %s, model returned normally" % type(exc).__name__
    else:
        if st != "ok":
            diff = "model status %s, code returned normally" % st
        else:
            mc = m["cost"].split(",")
            mcols = [c.split(",") for c in m["cols"].split(";")]
            o = out.set_index("tag", drop=False)
            for i in range(nrows):
                cv = float(o.loc[tags[i], "cost"])
                if not tok_close(mc[i], cv, 1e-12) or mc[i] == "u":
                    diff = "cost of row %d: model %s, code %r" % (i, mc[i], cv)
                    break
                for j, p in enumerate(ff.params):
                    if not tok_close(mcols[j][i], float(o.loc[tags[i], p]), 1e-12):
                        diff = "row %d %s: model %s, code %r" % (i, p, mcols[j][i], float(o.loc[tags[i], p]))
                        break
                if diff:
                    break
            if diff is None:
                for k_, (a, b_) in enumerate(zip(used_m, used_c)):
                    if a != "x" and a != b_:
                        diff = "optimiser calls in outer iteration %d: model %s, code %s" % (k_, a, b_)
                        break
    # x0 / bounds handed to the optimiser (in-situ function mode)
    if diff is None:
        for pt in per_tag:
            if pt["cb"] is None:
                continue
            idx = pt["idx"]
            if is_global:
                gl = [[idx.index(i) for i in c] for c in clusters]
                gfield = ";".join(",".join(str(i) for i in g) for g in gl)
            else:
                gfield = "-"
            rq = "C16BOUNDS %s | %s | %s | %s | %s | %s" % (
                " ".join("%s:%s" % (p, k) for p, k in zip(ff.params, kinds)),
                ",".join(str(r) for r in radius), dict_field(d), ",".join(str(mm) for mm in ff.modes),
                gfield, ";".join(",".join(bstr(P0[i, j]) for i in idx) for j in range(len(ff.params))))
            mb = common.kv(ctx.ask(rq))
            fb = pt["cb"]["bounds"]
            lo = mb.get("lo", "")
            hi = mb.get("hi", "")
            lo = lo.split(",") if isinstance(lo, str) and lo else []
            hi = hi.split(",") if isinstance(hi, str) and hi else []
            okb = len(lo) == len(fb) and all(tok_close(a, b_[0]) and tok_close(c_, b_[1])
                                             for a, c_, b_ in zip(lo, hi, fb))
            for e in pt["mins"]:
                x0m = mb.get("x0", "")
                x0m = x0m.split(",") if isinstance(x0m, str) and x0m else []
                okb = okb and len(x0m) == len(e["x0"]) and all(tok_close(a, v) for a, v in zip(x0m, e["x0"]))
                okb = okb and np.array_equal(e["bounds"], fb, equal_nan=True)
            if not okb:
                diff = "x0 / bounds handed to the optimiser differ from the model's (block %r)" % (idx,)
                break
    if diff and not oracle_bad and not res.viol:
        res.violation("correspondence-break", "refineCtl differs from refine_leastsq: " + diff,
                      impl=dict(exc=None if exc is None else repr(exc),
                                table=None if out is None else out.to_dict("list")),
                      model=m, broken="refineCtl / fitBlock / rounds",
                      signature=dict(stream="refine", what="model-differs"))
    res.sample = dict(stream="refine", clusters=len(clusters), failed=nfail, fitted=nfit,
                      calls=len(mins), acts=sorted(injected), level="global" if is_global else "cluster")


# ------------------------------------------------------------------------------------------
# stream 3: accuracy (supporting evidence)

def run_accuracy(ctx, inp, res):
    import pandas as pd
    from trackpy.refine import least_squares as ls
    rng = np.random.RandomState(inp["seed"] % (2 ** 31))
    ndim, fitfun, dimer = inp["ndim"], inp["fitfun"], inp["dimer"]
    size = {"gauss": 2.5, "ring": 4.0, "disc": 3.0}[fitfun] * (0.8 if ndim == 3 else 1.0)
    diameter = 13 if ndim == 2 else 11
    shape = (40, 48) if ndim == 2 else (24, 26, 28)
    c0 = np.array([s / 2 for s in shape]) + rng.rand(ndim)
    centres = [c0]
    if dimer:
        v = rng.randn(ndim)
        v /= np.linalg.norm(v)
        centres.append(c0 + v * size * {"gauss": 2.5, "ring": 2.2, "disc": 2.5}[fitfun])
    extra = {"gauss": [], "ring": [0.2], "disc": [0.5]}[fitfun]
    nfr = int(inp.get("nframes") or 1)
    pm = inp.get("pm")
    cols = ["z", "y", "x"][-ndim:]
    base = [np.array(c) for c in centres]
    step = rng.uniform(2.0, 4.0, size=ndim) * rng.choice([-1, 1], size=ndim)
    if ndim == 3:
        step *= 0.5
    images, rows, truth = [], [], []
    for k in range(nfr):
        cs = [c + k * step for c in base]
        images.append(draw(ls, shape, cs, fitfun, size, 200.0, extra, 0.0))
        for c in cs:
            v = rng.randn(ndim)
            v /= np.linalg.norm(v)
            rows.append(list(c + 1.5 * v) + [k])
            truth.append(c)
    centres = truth
    f = pd.DataFrame(rows, columns=cols + ["frame"])
    f["frame"] = f["frame"].astype(int)
    if nfr == 1 and inp["seed"] % 2 == 0:
        f = f.drop(columns=["frame"])
    f["signal"] = 180.0
    f["size"] = size
    reader = images[0] if nfr == 1 else Frames(images)
    kw = {} if pm is None else dict(param_mode=dict(pm))
    res.stat("accuracy_cases")
    res.stat("accuracy_%s_%dd_%s" % (fitfun, ndim, "dimer" if dimer else "single"))
    res.stat("accuracy_frames_%d" % nfr)
    res.stat("accuracy_pm_" + ("default" if pm is None else "+".join("%s=%s" % kv for kv in sorted(pm.items()))))
    tap = FrameTap(ls)
    try:
        with warnings.catch_warnings(), tap:
            warnings.simplefilter("ignore")
            r = ls.refine_leastsq(f, reader, diameter, fit_function=fitfun, **kw)
    except Exception as e:
        res.violation("property-violation", "refine_leastsq raised %s: %s" % (type(e).__name__, e),
                      signature=dict(stream="accuracy", what="raises", error=type(e).__name__))
        return
    err = np.sqrt(((r[cols].values - np.array(centres)) ** 2).sum(1))
    good = bool(np.isfinite(r["cost"].values).all() and (err < 0.1).all())
    res.nontrivial = True
    res.stat("accuracy_err_below_1e-3" if err.max() < 1e-3 else "accuracy_err_above_1e-3")
    if not good:
        res.violation("property-violation",
                      "noise-free %s image (%d-D, %s, %d frame(s), param_mode %s), starts 1.5 px off: "
                      "centre error %r px, cost %r"
                      % (fitfun, ndim, "dimer" if dimer else "single", nfr, pm, err.tolist(),
                         r["cost"].tolist()),
                      impl=dict(err=err.tolist()),
                      signature=dict(stream="accuracy", what="not-recovered", fit_function=fitfun,
                                     size_mode="free" if (pm or {}).get("size", "const") != "const"
                                     else "default"))
    if nfr > 1:
        # X15: the frames actually read per cluster / per solver call against Model/LeastsqFrames.lean
        check_frames_read(ctx, res, tap, r, has_global_mode(pm), "accuracy")
    res.sample = dict(stream="accuracy", fitfun=fitfun, ndim=ndim, dimer=dimer, max_err=float(err.max()))

# ------------------------------------------------------------------------------------------
# streams 4/5: multi-frame tables judged BY LABEL; history independence

class Frames:
    """minimal FramesSequence look-alike (frame_shape + integer indexing)"""

    def __init__(self, frames):
        self.frames = list(frames)
        self.frame_shape = self.frames[0].shape
        self.reads = 0
        self.read_seq = []          # the indices asked for, in order

    def __len__(self):
        return len(self.frames)

    def __getitem__(self, i):
        self.reads += 1
        self.read_seq.append(int(i))
        return self.frames[int(i)]


# ---- X15: WHICH FRAME every cluster is fitted against (Model/LeastsqFrames.lean, op LSQFRAMES) ----

class ReadProxy:
    """stands in for the `reader` argument of one prepare_subimages call (the dict of cached frames on
    the global level, ReaderCached otherwise) and records the indices asked for"""

    def __init__(self, inner, log):
        self._inner, self._log = inner, log

    def __getitem__(self, i):
        try:
            self._log.append(int(i))
        except Exception:
            self._log.append(repr(i))
        return self._inner[i]

    def __len__(self):
        return len(self._inner)

    def __getattr__(self, name):
        return getattr(self._inner, name)


class FrameTap:
    """`with FrameTap(ls) as tap:` wraps `least_squares.prepare_subimages` (the name refine_leastsq
    looks up at call time).  Signature-agnostic: the arguments are bound with the signature of the
    function found there and passed through unchanged, except that the `reader` argument is replaced
    by a recording proxy.  Every call is recorded as dict(groups, frame_nos, reads, key)."""

    def __init__(self, ls):
        self.ls, self.calls, self.unbound = ls, [], 0

    def __enter__(self):
        self.orig = self.ls.prepare_subimages
        self.ls.prepare_subimages = self._wrapped
        return self

    def __exit__(self, *exc):
        self.ls.prepare_subimages = self.orig
        return False

    def _wrapped(self, *a, **k):
        import inspect
        rec = dict(groups=None, frame_nos=None, reads=[], key=None, raised=False)
        try:
            ba = inspect.signature(self.orig).bind(*a, **k)
            args = ba.arguments
            if "groups" not in args or "frame_nos" not in args or "reader" not in args:
                raise TypeError("unexpected signature")
            g, fn = args["groups"], args["frame_nos"]
            rec["groups"] = None if g is None else [[int(j) for j in cl] for cl in g[0]]
            rec["frame_nos"] = [int(v) for v in fn]
            rec["key"] = id(fn)          # one array per iteration of the outer loop (L850)
            args["reader"] = ReadProxy(args["reader"], rec["reads"])
            a, k = ba.args, ba.kwargs
            self.calls.append(rec)
        except Exception:
            self.unbound += 1
        try:
            return self.orig(*a, **k)
        except BaseException:
            rec["raised"] = True      # e.g. RefineException "out of image bounds" at some cluster
            raise


def _frames_field(groups):
    return "-" if groups is None else ";".join(",".join(str(j) for j in cl) for cl in groups)


def _ints(tok):
    return [int(x) for x in tok.split(",") if x != ""]


def check_frames_read(ctx, res, tap, out, is_global, stream):
    """the tie of X15: (1) per recorded prepare_subimages call, the indices read from the reader equal
    the model's `framesRead frame_nos groups` (a non-empty prefix of it when the call raised); (2) the sequence of solver calls (recorded calls with the
    same `frame_nos` array merged) is a subsequence of the model's `plan` built from the RETURNED table's
    frame / cluster columns (a cluster that fails before its first round makes no call), the whole
    plan when every row was fitted."""
    sig = dict(stream=stream, what="frames-read")
    if tap.unbound:
        res.stat("frames_read_unbound_calls", tap.unbound)
        res.violation("correspondence-break", "prepare_subimages was called with arguments that do not bind to "
                      "(groups, frame_nos, reader): the frames read cannot be observed", broken="framesRead",
                      signature=sig)
        return
    cache = {}
    solver_calls = []            # [(first round aborted?, reads of the first round)]
    last_key = object()
    for rec in tap.calls:
        q = "LSQFRAMES call | %s | %s" % (",".join(map(str, rec["frame_nos"])), _frames_field(rec["groups"]))
        if q not in cache:
            cache[q] = common.kv(ctx.ask(q))
        m = cache[q]
        if "read" not in m:
            res.violation("harness-error", "driver answered %r to %r" % (m, q))
            return
        want = _ints(m["read"])
        res.stat("frames_read_calls")
        if rec["groups"] is not None and len(set(want)) > 1:
            res.stat("frames_read_calls_spanning_frames")
        if m.get("cwf") != "1":
            res.violation("correspondence-break", "a cluster handed to prepare_subimages spans several frames or is "
                          "empty: frame_nos %r groups %r" % (rec["frame_nos"], rec["groups"]),
                          impl=dict(frame_nos=rec["frame_nos"], groups=rec["groups"]), broken="ClustersWithinFrames",
                          signature=sig)
            return
        # a call that raised (a cluster outside the image) stops at that cluster: the frames read so far
        # are the model's up to and including it
        if rec["raised"]:
            res.stat("frames_read_calls_aborted")
        if (rec["reads"] != want[:len(rec["reads"])] or not rec["reads"]) if rec["raised"] else rec["reads"] != want:
            res.violation("correspondence-break",
                          "prepare_subimages(frame_nos=%r, groups=%r) read the frames %r, the model reads %r "
                          "(one per cluster: the frame of its first member)"
                          % (rec["frame_nos"], rec["groups"], rec["reads"], want),
                          impl=dict(reads=rec["reads"]), model=dict(reads=want), broken="framesRead / "
                          "framesRead_own_frame", signature=sig)
            return
        if rec["key"] != last_key:
            solver_calls.append((rec["raised"], rec["reads"]))
            last_key = rec["key"]
    if out is None or "cluster" not in out.columns or "frame" not in out.columns:
        return
    rows = [int(v) for v in out["frame"].values]
    cl = out["cluster"].values
    clusters = [[int(j) for j in np.nonzero(cl == c)[0]] for c in sorted(set(cl.tolist()))]
    m = common.kv(ctx.ask("LSQFRAMES plan %s | %s | %s" % ("g" if is_global else "c", ",".join(map(str, rows)),
                                                          _frames_field(clusters))))
    if "read" not in m:
        res.violation("harness-error", "driver answered %r (plan)" % (m,))
        return
    plan = [_ints(t) for t in m["read"].split(";")] if m["read"] != "" else []
    pairs = dict((int(a), int(b)) for a, b in (t.split(":") for t in m.get("pairs", "").split(",") if t))
    res.stat("frames_read_plan_global" if is_global else "frames_read_plan_per_cluster")
    # the theorem's conclusion, evaluated: every row once, with its own frame
    if m.get("cwf") != "1" or pairs != dict(enumerate(rows)):
        res.violation("correspondence-break", "the returned table's clusters are not within frames / do not "
                      "partition the rows: frames %r clusters %r" % (rows, clusters), broken="ClustersWithinFrames",
                      signature=sig)
        return
    seen = [r for _, r in solver_calls]
    it = iter(plan)
    ok = all(any((r == p[:len(r)]) if ab else (r == p) for p in it) for ab, r in solver_calls)
    all_fitted = bool(np.isfinite(out["cost"].values.astype(float)).all()) if "cost" in out.columns else False
    if ok and all_fitted and len(out):
        ok = seen == plan
    if not ok:
        res.violation("correspondence-break",
                      "frames read per solver call %r do not follow the model's plan %r (%s level, frames %r, "
                      "clusters %r)" % (seen, plan, "global" if is_global else "cluster", rows, clusters),
                      impl=dict(reads=seen), model=dict(plan=plan), broken="plan / plan_covers_rows_with_own_frame",
                      signature=sig)


def has_global_mode(pm):
    return any(v in ("global", 2) for v in (pm or {}).values())


def scene_extra(fitfun):
    return {"ring": [0.2], "gauss": [], "disc": [0.5]}[fitfun]


def build_scene(ls, scene):
    """-> reader (Frames | ndarray), pristine copies of the images, the feature table"""
    import pandas as pd
    fitfun = scene["fitfun"]
    size = SC_SIZE[fitfun]
    feats = scene["feats"]
    images = []
    for fno in range(scene["nframes"]):
        centres = [f["true"] for f in feats if f["frame"] == fno and f["kind"] != "out"] if scene["multi"] else \
                  [f["true"] for f in feats if f["kind"] != "out"]
        if scene.get("dark_frame") is not None and fno == scene["dark_frame"]:
            images.append(np.zeros(SC_SHAPE))
        elif centres or not scene["multi"]:
            images.append(draw(ls, SC_SHAPE, centres, fitfun, size, 200.0, scene_extra(fitfun), float(scene["bg"])))
        else:
            images.append(np.full(SC_SHAPE, 5.0 + fno))
    n = len(feats)
    data = {"y": [f["start"][0] for f in feats], "x": [f["start"][1] for f in feats]}
    if scene["multi"] or scene["extra_cols"]:
        data["frame"] = [f["frame"] for f in feats]
    data["signal"] = [np.nan if f["nan"] else 180.0 for f in feats]
    data["size"] = [size] * n
    if scene["bg"]:
        data["background"] = [0.8 * scene["bg"]] * n
    data["tag"] = list(range(n))
    data["mass"] = [1000 + 3 * i for i in range(n)]
    if scene["extra_cols"]:
        data["name"] = ["p%02d" % (7 * i % 100) for i in range(n)]
        data["ecc"] = [0.125 * i for i in range(n)]
    if scene.get("signal_int") and not any(f["nan"] for f in feats):
        data["signal"] = np.array([180] * n, dtype=np.int64)
    if scene.get("all_int") and not any(f["nan"] for f in feats):
        data["y"] = np.array([int(v) for v in data["y"]], dtype=np.int64)
        data["x"] = np.array([int(v) for v in data["x"]], dtype=np.int64)
        data["size"] = np.array([3] * n, dtype=np.int64)
        if "background" in data:
            data["background"] = np.array([int(0.8 * scene["bg"])] * n, dtype=np.int64)
    t = pd.DataFrame(data)
    order = list(range(n))
    rnd = random.Random(scene["oseed"])
    if scene.get("colorder"):
        cols = list(t.columns)
        rnd.shuffle(cols)
        t = t[cols]
    kind = scene["order"]
    if kind == "desc":
        order.sort(key=lambda i: -feats[i]["frame"])
    elif kind == "interleaved":
        rnd.shuffle(order)
    elif kind == "particle":
        order.sort(key=lambda i: (feats[i]["cell"], feats[i]["frame"]))
    elif kind == "rotated" and n > 1:
        k = 1 + rnd.randrange(n - 1)
        order = order[k:] + order[:k]
    t = t.iloc[order]
    lay = scene["index"]
    if lay == "range":
        t = t.reset_index(drop=True)
    elif lay == "shuffled":
        lab = [7 + 5 * i for i in range(n)]
        rnd.shuffle(lab)
        t.index = pd.Index(lab)
    elif lay == "str":
        lab = ["r" + chr(97 + (i * 7) % 26) + str(i) for i in range(n)]
        t.index = pd.Index(lab)
    elif lay == "dup":
        t.index = pd.Index([i // 2 for i in range(n)])
    elif lay == "tindex":
        t.index = pd.Index(t["frame"].values, name="frame")
    if scene.get("img_f32"):
        images = [im.astype(np.float32) for im in images]
    pristine = [im.copy() for im in images]
    reader = Frames(images) if scene["multi"] else images[0]
    return reader, pristine, t


def build_kwargs(ls, call):
    kw = {}
    for k, v in call.items():
        if k == "bounds":
            kw[k] = {a: (tuple(b) if isinstance(b, list) else b) for a, b in v.items()}
        elif k == "constraints":
            kw[k] = ls.dimer(float(v))
        elif k == "fit_function" and v == "custom_gauss":
            kw[k] = dict(params=[], fun=ls.gauss_fun, dfun=ls.gauss_dfun, continuous=True, default=dict())
        elif isinstance(v, (dict, list)):
            kw[k] = copy.deepcopy(v)
        else:
            kw[k] = v
    return kw


def images_of(reader):
    return reader.frames if isinstance(reader, Frames) else [reader]


def deep_same(a, b):
    """equality of keyword-argument structures (dicts / sequences / arrays / callables)"""
    if isinstance(a, np.ndarray) or isinstance(b, np.ndarray):
        return isinstance(a, np.ndarray) and isinstance(b, np.ndarray) and a.dtype == b.dtype and \
            np.array_equal(a, b, equal_nan=a.dtype.kind == "f")
    if isinstance(a, dict) or isinstance(b, dict):
        return isinstance(a, dict) and isinstance(b, dict) and list(a.keys()) == list(b.keys()) and \
            all(deep_same(a[k], b[k]) for k in a)
    if isinstance(a, (list, tuple)) or isinstance(b, (list, tuple)):
        return type(a) is type(b) and len(a) == len(b) and all(deep_same(x, y) for x, y in zip(a, b))
    if callable(a) or callable(b):
        return a is b
    return type(a) is type(b) and cell_same(a, b)


def cell_same(a, b):
    if isinstance(a, float) and isinstance(b, float) and math.isnan(a) and math.isnan(b):
        return True
    try:
        if a != a and b != b:
            return True
    except Exception:
        pass
    return bool(a == b)


def call_refine(res, ls, reader, pristine, table, kw, sig):
    """one refine_leastsq call with the caller's objects audited; -> (out, exc)"""
    t = table.copy(deep=True)
    kw0 = copy.deepcopy(kw)
    out = exc = None
    try:
        with warnings.catch_warnings():
            warnings.simplefilter("ignore")
            out = ls.refine_leastsq(t, reader, SC_DIAM, **kw)
    except Exception as e:
        exc = e
    if not deep_same(kw, kw0):
        ch = [k for k in kw0 if k not in kw or not deep_same(kw[k], kw0[k])] + [k for k in kw if k not in kw0]
        ch = ch or ["<order of keys>"]
        res.violation("property-violation", "refine_leastsq modified the caller's keyword argument(s) %r: %r -> %r"
                      % (ch, {k: kw0.get(k) for k in ch}, {k: kw.get(k) for k in ch}),
                      signature=dict(sig, what="caller-kwargs-modified", argument=str(ch[0])))
    if not all(np.array_equal(a, b) for a, b in zip(images_of(reader), pristine)):
        res.violation("property-violation", "refine_leastsq modified the caller's image(s)",
                      signature=dict(sig, what="caller-image-modified"))
    # the caller's table: existing columns and labels untouched (a frame column may be added)
    same = list(t.index) == list(table.index) and all(
        c in t.columns and len(t[c]) == len(table[c]) and
        all(cell_same(a, b) for a, b in zip(t[c].tolist(), table[c].tolist())) for c in table.columns)
    if not same:
        res.violation("property-violation", "refine_leastsq modified existing columns / labels of the caller's table",
                      signature=dict(sig, what="caller-table-modified"))
    elif list(t.columns) != list(table.columns):
        res.stat("caller_table_gained_columns")
    return out, exc


def row_desc(r):
    return "(tag %d, frame %s, y %.3f, x %.3f)" % (int(r["tag"]), int(r["frame"]) if "frame" in r else "-",
                                                   r["y"], r["x"])


def lab_repr(l):
    return repr(l.item() if hasattr(l, "item") else l)


def judge_by_label(res, ls, scene, call, table, out, exc, sig, who="refine_leastsq"):
    """the statement, row by row, rows identified by their index LABEL.  -> dict(nfit, nfail) | None"""
    if exc is not None:
        res.violation("property-violation", "%s raised %s: %s" % (who, type(exc).__name__, exc),
                      impl="%s: %s" % (type(exc).__name__, exc),
                      signature=dict(sig, what="raises", error=type(exc).__name__))
        return None
    n = len(table)
    feats = scene["feats"]
    lab_in = [lab_repr(l) for l in table.index.tolist()]
    lab_out = [lab_repr(l) for l in out.index.tolist()]
    if len(out) != n or "tag" not in out.columns or sorted(lab_in) != sorted(lab_out) or \
            sorted(int(v) for v in out["tag"].values) != list(range(n)):
        res.violation("property-violation", "%s: the set of rows / index labels changed: labels %s -> %s"
                      % (who, lab_in, lab_out), signature=dict(sig, what="rows-changed"))
        return None
    pin = sorted(zip(lab_in, [int(v) for v in table["tag"].values]))
    pout = sorted(zip(lab_out, [int(v) for v in out["tag"].values]))
    i0 = table.set_index("tag", drop=False)
    o = out.set_index("tag", drop=False)
    if pin != pout:
        lab = next(a[0] for a, b in zip(pin, pout) if a != b)
        tin = [tg for l, tg in pin if l == lab]
        tout = [tg for l, tg in pout if l == lab]
        rin, rout = i0.loc[tin[0]], o.loc[tout[0]]
        d = float(np.hypot(rout["y"] - rin["y"], rout["x"] - rin["x"]))
        res.violation("property-violation",
                      "%s: by LABEL the output rows are other features' rows: label %s was %s in the input and is "
                      "%s with cost %r in the output (%.1f px from its own start, mask radius %d); table order %r, "
                      "index layout %r, frames %s"
                      % (who, lab, row_desc(rin), row_desc(rout), float(rout["cost"]), d, SC_DIAM // 2,
                         scene["order"], scene["index"], [int(v) for v in table["frame"].values]
                         if "frame" in table else "-"),
                      impl=dict(labels_in=lab_in, tags_in=[int(v) for v in table["tag"].values],
                                labels_out=lab_out, tags_out=[int(v) for v in out["tag"].values]),
                      signature=dict(sig, what="label-row-mismatch"))
        return None
    ff = make_ff(ls, call.get("fit_function", "gauss") if isinstance(call.get("fit_function", "gauss"), str)
                 and call.get("fit_function") != "custom_gauss" else "gauss", 2, True, call.get("param_mode"))
    is_global = any(m == 2 for m in ff.modes)
    clean = set(call) <= {"fit_function"} and call.get("fit_function") == scene["fitfun"]
    clusters = {}
    for i, f in enumerate(feats):
        clusters.setdefault((f["frame"], f["cell"]), []).append(i)
    any_mustfail = any(feats[c[0]]["kind"] in ("out", "nan") for c in clusters.values())
    radius = SC_DIAM // 2
    nfit = nfail = 0
    for key, c in sorted(clusters.items()):
        kind = feats[c[0]]["kind"]
        costs = [float(o.loc[i, "cost"]) for i in c]
        failed = all(math.isnan(v) for v in costs)
        if not failed and any(math.isnan(v) for v in costs):
            res.violation("property-violation", "%s: cost is NaN for part of a cluster only: %r" % (who, costs),
                          signature=dict(sig, what="cost-mixed"))
            return None
        must = kind in ("out", "nan") or (is_global and any_mustfail)
        if must and not failed:
            res.violation("property-violation",
                          "%s: cluster %r (%s) cannot have been fitted, but label(s) %s carry cost %r"
                          % (who, key, "start outside the image" if kind == "out" else
                             ("non-finite start parameter" if kind == "nan" else "global fit with an impossible member"),
                             ", ".join(lab_in[list(table["tag"].values).index(i)] for i in c), costs),
                          signature=dict(sig, what="failure-not-marked", cause=kind))
            return None
        for i in c:
            lab = lab_in[list(table["tag"].values).index(i)]
            for col in table.columns:
                if col == "cost":
                    continue
                a, b = o.loc[i, col], i0.loc[i, col]
                if (failed or col not in ff.params) and not cell_same(a, b):
                    res.violation("property-violation",
                                  "%s: label %s (%s): column %r changed %r -> %r"
                                  % (who, lab, "FAILED fit, cost NaN" if failed else "fitted", col, b, a),
                                  impl=dict(label=lab, column=col, before=str(b), after=str(a)),
                                  signature=dict(sig, what="failed-row-changed" if failed else "other-column-changed",
                                                 column=col if col in ("frame", "tag", "mass") else
                                                 ("param" if col in ff.params else "other")))
                    return None
        if failed:
            nfail += 1
            if clean and kind == "near" and not is_global:
                res.violation("property-violation",
                              "%s: noise-free %s frame, default settings, start <= 1.2 px off: the fit of label(s) %s "
                              "failed (cost NaN)" % (who, scene["fitfun"],
                                                     ", ".join(lab_in[list(table["tag"].values).index(i)] for i in c)),
                              signature=dict(sig, what="not-recovered", fit_function=scene["fitfun"], how="failed"))
                return None
            continue
        nfit += 1
        for i in c:
            lab = lab_in[list(table["tag"].values).index(i)]
            for a, pc in enumerate(("y", "x")):
                v, st = float(o.loc[i, pc]), float(i0.loc[i, pc])
                if not abs(v - st) <= radius + TOL * max(1.0, abs(v)):
                    res.violation("property-violation",
                                  "%s: fitted %s of label %s moved %.3f px from its own start (mask radius %d)"
                                  % (who, pc, lab, abs(v - st), radius), impl=dict(label=lab, value=v, start=st),
                                  signature=dict(sig, what="outside-bounds", param=pc))
                    return None
            for p_, m_ in zip(ff.params, ff.modes):
                if m_ != 0 and (p_ in ("background", "signal") or p_ in ff.size_columns):
                    v = float(o.loc[i, p_])
                    if not v >= 1e-7 * (1 - 1e-9):
                        res.violation("property-violation", "%s: fitted %s = %r of label %s is not positive"
                                      % (who, p_, v, lab), signature=dict(sig, what="outside-bounds", param=p_))
                        return None
            if clean and kind == "near":
                err = float(np.hypot(o.loc[i, "y"] - feats[i]["true"][0], o.loc[i, "x"] - feats[i]["true"][1]))
                res.stat("label_accuracy_checked")
                if not err < 0.1:
                    res.violation("property-violation",
                                  "%s: noise-free %s frame, default settings, start <= 1.2 px off: label %s is %.3f px "
                                  "from the true centre" % (who, scene["fitfun"], lab, err),
                                  impl=dict(label=lab, err=err),
                                  signature=dict(sig, what="not-recovered", fit_function=scene["fitfun"], how="off"))
                    return None
    return dict(nfit=nfit, nfail=nfail)


def run_frames(ctx, inp, res):
    from trackpy.refine import least_squares as ls
    scene, call = inp["scene"], inp["call"]
    reader, pristine, t = build_scene(ls, scene)
    kw = build_kwargs(ls, call)
    fr = [int(v) for v in t["frame"].values]
    grouped = all(a <= b for a, b in zip(fr, fr[1:]))
    res.stat("frames_cases")
    res.stat("frames_order_" + scene["order"])
    res.stat("frames_index_" + scene["index"])
    res.stat("frames_features", len(t))
    for opt in ("colorder", "signal_int", "all_int", "img_f32", "dark_frame"):
        if scene.get(opt) not in (None, False):
            res.stat("frames_scene_" + opt)
    res.stat("frames_nframes_%d" % len(set(fr)))
    if not grouped:
        res.stat("interleaved_frame_tables")
    if fr and max(fr) + 1 != len(set(fr)):
        res.stat("frames_sparse_frame_numbers")
    sig = dict(stream="frames")
    with FrameTap(ls) as tap:
        out, exc = call_refine(res, ls, reader, pristine, t, kw, sig)
    if res.viol:
        return
    info = judge_by_label(res, ls, scene, call, t, out, exc, sig)
    # X15: the frames actually read per cluster / per solver call against Model/LeastsqFrames.lean
    # (after the direct oracle, and also when it has failed: both verdicts are recorded)
    check_frames_read(ctx, res, tap, out if exc is None else None, has_global_mode(call.get("param_mode")), "frames")
    if info is None or res.viol:
        return
    res.stat("frames_clusters_fitted", info["nfit"])
    res.stat("frames_clusters_failed", info["nfail"])
    res.stat("frames_call_clean" if set(call) <= {"fit_function"} else "frames_call_custom")
    res.nontrivial = (not grouped) or scene["index"] != "range"
    res.sample = dict(stream="frames", order=scene["order"], index=scene["index"], frames=fr,
                      fitted=info["nfit"], failed=info["nfail"], call=call)


SAFE_POLLUTERS = {"maxiter1", "options_ftol", "tol", "max_iter1", "max_rms_dev"}


def polluter_call(rng, name, scene, other, base):
    """-> (which scene, JSON call)"""
    call = dict(base)
    if name == "maxiter1":
        call["options"] = dict(maxiter=1)
    elif name == "options_ftol":
        call["options"] = dict(maxiter=rng.choice([2, 3]), ftol=1e-2, disp=False)
    elif name == "tol":
        call["tol"] = 1e-1
    elif name == "fitfun":
        call["fit_function"] = rng.choice([f for f in ("gauss", "ring", "disc") if f != base.get("fit_function")])
    elif name == "param_mode":
        call["param_mode"] = dict(rng.choice(PM_CHOICES))
    elif name == "global":
        call["param_mode"] = dict(rng.choice([{"signal": "global"}, {"size": "global", "background": "global"}]))
    elif name == "bounds":
        call["bounds"] = copy.deepcopy(rng.choice(BOUNDS_CHOICES))
    elif name == "constraints":
        call["constraints"] = 6.25
    elif name == "param_val":
        call["param_val"] = dict(size=3.0, signal=150.0)
    elif name == "max_iter1":
        call["max_iter"] = 1
    elif name == "max_rms_dev":
        call["max_rms_dev"] = 1e-9
    elif name == "raises":
        call["pos_columns"] = ["x"]
    elif name == "other_scene":
        return "other", dict(fit_function=other["fitfun"])
    elif name == "custom_fitfun":
        call["fit_function"] = "custom_gauss"
    elif name == "inv_series":
        call["fit_function"] = "inv_series_2"
        call["max_iter"] = 2
    elif name == "separation":
        call["separation"] = 30
    return "scene", call


def first_difference(a, b):
    if list(a.columns) != list(b.columns):
        return "columns %s vs %s" % (list(a.columns), list(b.columns))
    if [repr(x) for x in a.index.tolist()] != [repr(x) for x in b.index.tolist()]:
        return "index %s vs %s" % (a.index.tolist(), b.index.tolist())
    for c in a.columns:
        if a[c].dtype != b[c].dtype:
            return "dtype of %r: %s vs %s" % (c, a[c].dtype, b[c].dtype)
        for k, (x, y) in enumerate(zip(a[c].tolist(), b[c].tolist())):
            if not cell_same(x, y):
                return "row %d (label %s) column %r: %r in the first call, %r in the repeated call" % (
                    k, lab_repr(a.index[k]), c, x, y)
    return None


def run_forked(fn, ctx, inp, res):
    """run fn(ctx, inp, res) in a forked child of this worker and merge what it reports.

    The history stream makes calls that are MEANT to leave state behind if the code keeps any.  In a
    child process (i) every case starts from the state the worker had before any polluting call, so
    the recorded input replays stand-alone, and (ii) nothing leaks into the cases of the other
    streams that this worker runs afterwards (their violations would not replay)."""
    try:
        r, w = os.pipe()
        pid = os.fork()
    except OSError:
        res.stat("history_not_isolated")
        return fn(ctx, inp, res)
    if pid == 0:
        code = 1
        try:
            os.close(r)
            signal.setitimer(signal.ITIMER_REAL, 0)
            sub = Result()
            try:
                fn(ctx, inp, sub)
            except BaseException:
                sub.viol.append(dict(kind="harness-error", message=traceback.format_exc()[-3000:],
                                     implementation_output=None, model_output=None, broken=None, signature={}))
            payload = pickle.dumps(dict(nontrivial=bool(sub.nontrivial), stats=dict(sub.stats), sample=sub.sample,
                                        viol=sub.viol, borderline=bool(sub.borderline)))
            with os.fdopen(w, "wb") as f:
                f.write(payload)
            code = 0
        finally:
            os._exit(code)
    os.close(w)
    data = b""
    try:
        with os.fdopen(r, "rb") as f:
            data = f.read()
    except BaseException:          # the per-case alarm of the runner: do not leave the child behind
        try:
            os.kill(pid, signal.SIGKILL)
        except OSError:
            pass
        raise
    finally:
        try:
            os.waitpid(pid, 0)
        except OSError:
            pass
    if not data:
        res.violation("harness-error", "the child process of a history case died without a report: %r" % (inp,))
        return
    got = pickle.loads(data)
    res.nontrivial = got["nontrivial"]
    res.borderline = got["borderline"]
    res.sample = got["sample"]
    res.stats.update(got["stats"])
    res.viol.extend(got["viol"])
    res.stat("history_isolated_in_child_process")


def run_history(ctx, inp, res):
    from trackpy.refine import least_squares as ls
    scene, other, call = inp["scene"], inp["other"], inp["call"]
    rng = random.Random(inp["pseed"])
    built = dict(scene=build_scene(ls, scene), other=build_scene(ls, other))
    reader, pristine, t = built["scene"]
    kw = build_kwargs(ls, call)                  # the SAME objects are passed to the first and the repeated call
    sig = dict(stream="history")
    res.stat("history_cases")
    res.stat("history_scene_multi" if scene["multi"] else "history_scene_single")
    out1, exc1 = call_refine(res, ls, reader, pristine, t, kw, sig)
    if res.viol:
        return
    info1 = judge_by_label(res, ls, scene, call, t, out1, exc1, sig, who="first call")
    if info1 is None:
        return
    completed = 0
    for name in inp["polluters"]:
        which, pcall = polluter_call(rng, name, scene, other, call)
        rd, pr, tt = built[which]
        try:
            pkw = build_kwargs(ls, pcall)
        except Exception as e:
            res.violation("harness-error", "polluter kwargs: %r" % (e,))
            return
        psig = dict(stream="history", polluter=name)
        outp, excp = call_refine(res, ls, rd, pr, tt, pkw, psig)
        res.stat("history_polluter_" + name)
        if res.viol:
            return
        if excp is not None:
            res.stat("history_polluter_raised_%s_%s" % (name, type(excp).__name__))
            if name in SAFE_POLLUTERS:
                res.violation("property-violation",
                              "refine_leastsq(%s) raised %s: %s -- only a fit can fail in this call"
                              % (", ".join("%s=%r" % kv_ for kv_ in pcall.items()), type(excp).__name__, excp),
                              signature=dict(psig, what="raises", error=type(excp).__name__))
                return
        else:
            completed += 1
            if name in SAFE_POLLUTERS:
                # whatever failed keeps its input values, by label (no accuracy demand: pass a non-clean call)
                if judge_by_label(res, ls, built[which] is built["scene"] and scene or other, pcall,
                                  tt, outp, None, psig, who="call with %s" % name) is None:
                    return
    out2, exc2 = call_refine(res, ls, reader, pristine, t, kw, sig)
    if res.viol:
        return
    res.stat("history_repeat_cases")
    res.stat("history_polluters_completed", completed)
    said = ", ".join("%s=%r" % kv_ for kv_ in call.items()) or "defaults"
    if exc2 is not None:
        diff = "the repeated call raised %s: %s" % (type(exc2).__name__, exc2)
    else:
        diff = first_difference(out1, out2)
    if diff is not None:
        res.violation("property-violation",
                      "the same refine_leastsq call (%s) gives a different result after other calls in the same "
                      "process (%s): %s" % (said, ",".join(inp["polluters"]), diff),
                      impl=dict(first=out1.to_dict("list"), repeated=None if out2 is None else out2.to_dict("list")),
                      signature=dict(sig, what="history-dependent-result"))
        return
    # out2 is identical to out1, which satisfied the by-label oracle
    res.stat("history_repeat_identical")
    res.stat("history_repeat_fitted", info1["nfit"])
    res.nontrivial = info1["nfit"] >= 1 and completed >= 1
    res.sample = dict(stream="history", call=call, polluters=inp["polluters"], fitted=info1["nfit"],
                      failed=info1["nfail"], multi=scene["multi"])


def run_case(ctx, inp):
    res = Result()
    s = inp.get("stream")
    if s == "bounds":
        run_bounds(ctx, inp, res)
    elif s == "refine":
        run_refine(ctx, inp, res)
    elif s == "accuracy":
        run_accuracy(ctx, inp, res)
    elif s == "frames":
        run_frames(ctx, inp, res)
    elif s == "history":
        run_forked(run_history, ctx, inp, res)
    else:
        res.violation("harness-error", "unknown stream %r" % s)
    return res
