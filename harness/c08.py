"""C08 — locate's output obeys its documented filters and bounds.

Every case is one image (or, in the `synthetic` stream, one hand-built table injected in place of
`refine_com`'s result) and a grid of (minmass, maxsize, topn) triples.  The real `trackpy.locate`
is run once unrestricted (minmass=0, no maxsize, no topn) and once per triple.

  * direct ORACLE, written from the property statement on locate's DataFrames only (no model):
    mass > minmass, size < maxsize, inside the image, pairwise per-axis distance >= separation,
    topn: at most n rows and their masses are the n largest masses of the same call without topn
    (multiset comparison = "up to ties"), every returned row occurs in the unrestricted result
    with every column equal (join on position, NaN == NaN), every ep cell >= 0 or NaN.
  * CORRESPONDENCE (function mode) with the Lean model `Model/LocatePost.lean` (op `C08POST`): the
    harness wraps `trackpy.feature.refine_com / measure_noise / convert_to_int` at run time (no
    source hook) to capture the refined table, (black_level, noise) and the scale factor of each
    call; these are the model's input; the model's rows (tag, mass, signal, ep cells) are compared
    with locate's rows (every other column is carried by tag).
"""
import math
import warnings
from fractions import Fraction

import numpy as np

from . import common
from .common import Result

PROP = "C08"
RULE = ("images 2-D (40-72 px) and 3-D (12-16 x 28-36 px): gaussian blobs on dark / bright / half-bright "
        "backgrounds, pure noise textures, flat-topped (saturated) blobs, float images, integer images "
        "used without preprocessing (background fully covered -> noise NaN); isotropic and anisotropic "
        "odd diameters, default and custom separations, isotropic/anisotropic noise_size, percentile "
        "30-95, preprocess on/off; synthetic stream = hand-built refined tables (positions k/8, tied "
        "masses, duplicate chains, NaN sizes) injected in place of refine_com's result.  Filter grid "
        "per case: minmass in {0, mid-quantiles of the unrestricted masses, exactly a mass value, above "
        "the maximum}, maxsize in {None, mid-quantiles of the sizes, exactly a size value, below the "
        "minimum}, topn in {None, 1, 2, 3, half, all, more than all}.  Non-trivial = unrestricted "
        "result has >= 3 rows and some triple removes rows while keeping >= 1; distinct = distinct input.")
ASSUMPTIONS = [
    "engine='python' (numba is not installed); characterize=True; invert=False; threshold/smoothing_size default",
    "the refined table, (black_level, noise) and scale_factor handed to the model are the implementation's "
    "own values, captured by wrapping trackpy.feature.refine_com/measure_noise/convert_to_int at run time",
    "the factor sqrt(sum x^2) (_root_sum_x_squared) is an abstract parameter of the model; the harness "
    "passes the implementation's float value",
    "floats are converted exactly (Fraction); model values compared with rel. tolerance 1e-9 (ep) / "
    "1e-12 (mass, signal); cases where |d^2-1| < 1e-6 for some pair (KD-tree slack 1-1e-7) or where a "
    "an ep cell whose denominator raw_mass - N*black_level vanishes to within 1e-9 relative is decided "
    "by float rounding in the code (inf) and is not compared with the exact model",
    "mass/size is within 1e-9 of the threshold without being equal are counted borderline and only "
    "the direct oracle is applied",
    "'inside the image' is checked as -0.5 <= x_k <= shape_k - 0.5; 'ep positive or NaN' as never negative",
    "topn >= 1 (topn = 0 returns every row: Python's [-0:]; not counted as a violation, see report)",
    "unrestricted result = locate(minmass=0, maxsize=None, topn=None) (documented 'no filtering')",
]
MIN_NONTRIVIAL = 20
MAX_MODEL_ROWS = 150

CAP = {}


def init(ctx):
    common.setup_repo_path()
    import trackpy.feature as F
    if getattr(F, "_c08_wrapped", False):
        return
    orig_refine, orig_noise, orig_conv = F.refine_com, F.measure_noise, F.convert_to_int

    def refine_com(*a, **k):
        out = orig_refine(*a, **k)
        inj = CAP.get("inject")
        if inj is not None:
            out = inj.copy()
        CAP["refined"] = out.copy()
        return out

    def measure_noise(*a, **k):
        out = orig_noise(*a, **k)
        CAP["noise"] = (float(out[0]), float(out[1]))
        return out

    def convert_to_int(*a, **k):
        out = orig_conv(*a, **k)
        CAP["scale"] = float(out[0])
        return out

    F.refine_com, F.measure_noise, F.convert_to_int = refine_com, measure_noise, convert_to_int
    F._c08_wrapped = True


# ------------------------------------------------------------------------------------------
# images

def make_image(inp):
    rs = np.random.RandomState(inp["img_seed"])
    shape = tuple(inp["shape"])
    kind = inp["kind"]
    nd = len(shape)
    grids = np.meshgrid(*[np.arange(s) for s in shape], indexing="ij")
    img = np.zeros(shape)
    rad = inp.get("blob_r", [2.0] * nd)
    nblob = inp.get("nblob", 8)
    amp = inp.get("amp", 160)

    def blobs(n, flat=False):
        out = np.zeros(shape)
        for _ in range(n):
            c = [rs.uniform(4, s - 4) for s in shape]
            a = rs.uniform(0.3, 1.0) * amp
            g = a * np.exp(-sum(((gr - ci) / ri) ** 2 for gr, ci, ri in zip(grids, c, rad)))
            out += g
        return out

    if kind == "noise":
        img = rs.randint(0, inp.get("noise_hi", 40), shape).astype(float)
    elif kind == "blobs":
        img = blobs(nblob) + rs.randint(0, inp.get("noise_hi", 10), shape)
    elif kind == "bright":
        img = blobs(nblob) + 60 + rs.randint(0, inp.get("noise_hi", 10), shape)
    elif kind == "halfbright":
        img = blobs(nblob) + rs.randint(0, inp.get("noise_hi", 6), shape)
        half = shape[-1] // 2
        img[..., half:] += 90
    elif kind == "flat":
        img = np.minimum(blobs(nblob) * 2.5, inp.get("sat", 120)) + rs.randint(0, 3, shape)
    elif kind == "grid":
        # integer-valued identical blobs on a lattice: tied masses
        img = np.zeros(shape)
        step = inp.get("step", 12)
        pts = np.stack(np.meshgrid(*[np.arange(step // 2 + 2, s - step // 2, step) for s in shape],
                                   indexing="ij"), -1).reshape(-1, nd)
        for c in pts:
            img += np.round(amp * np.exp(-sum(((gr - ci) / 2.0) ** 2 for gr, ci in zip(grids, c))))
    else:
        raise ValueError(kind)
    if inp.get("dtype") == "float":
        img = img / 255.0
        return img.astype(np.float64)
    return np.clip(np.round(img), 0, 255).astype(np.uint8)


def gen_image_case(rng, i):
    nd = 3 if rng.random() < 0.15 else 2
    kind = rng.choice(["blobs", "blobs", "noise", "noise", "bright", "halfbright", "flat", "grid"])
    if nd == 2:
        shape = [rng.randint(40, 72), rng.randint(40, 72)]
        if shape[0] == shape[1]:
            shape[1] += 2
        aniso = rng.random() < 0.4
        if aniso:
            diameter = rng.choice([[5, 9], [9, 5], [7, 11], [5, 7], [7, 5]])
        else:
            d = rng.choice([5, 7, 9, 11])
            diameter = [d, d]
    else:
        shape = [rng.randint(12, 16), rng.randint(28, 36), rng.randint(28, 36)]
        aniso = rng.random() < 0.5
        diameter = rng.choice([[3, 5, 5], [3, 7, 7], [5, 5, 7]]) if aniso else [5, 5, 5]
        if kind in ("flat",):
            kind = "blobs"
    sepmode = rng.choice(["default", "default", "small", "float"])
    if sepmode == "default":
        separation = None
    elif sepmode == "small":
        separation = [max(2, d - 2) for d in diameter]
    else:
        separation = [d + 0.5 for d in diameter]
    nsmode = rng.choice(["1", "1", "1", "aniso", "1.5"])
    noise_size = {"1": [1] * nd, "1.5": [1.5] * nd, "aniso": ([1, 1.5] if nd == 2 else [1, 1.5, 1.5])}[nsmode]
    preprocess = rng.random() < 0.7
    dtype = "float" if rng.random() < 0.25 else "uint8"
    inp = dict(stream="image", kind=kind, shape=shape, img_seed=rng.randint(0, 10 ** 9),
               diameter=diameter, separation=separation, noise_size=noise_size,
               percentile=rng.choice([64, 64, 30, 50, 80, 95]), preprocess=preprocess, dtype=dtype,
               nblob=rng.randint(4, 14), amp=rng.choice([80, 160, 220]),
               noise_hi=rng.choice([3, 10, 25, 40]), blob_r=[rng.choice([1.5, 2.0, 3.0]) for _ in range(nd)],
               sat=rng.choice([80, 120, 200]), step=rng.choice([10, 12, 14]),
               grid_seed=rng.randint(0, 10 ** 9))
    return inp


def gen_synth_case(rng, i):
    """hand-built refined table; positions k/8, small integer masses with ties"""
    nd = 2
    shape = [48, 50]
    aniso = rng.random() < 0.4
    diameter = rng.choice([[5, 9], [7, 5]]) if aniso else rng.choice([[5, 5], [7, 7]])
    n = rng.randint(3, 14)
    rows = []
    centres = []
    for j in range(n):
        if centres and rng.random() < 0.45:
            c = rng.choice(centres)
            p = [c[k] + rng.randint(-24, 24) for k in range(nd)]     # near another row (units 1/8)
        else:
            p = [rng.randint(8 * 6, 8 * (shape[k] - 7)) for k in range(nd)]
        p = [min(max(v, 8 * 5), 8 * (shape[k] - 6)) for k, v in enumerate(p)]
        centres.append(p)
        mass = rng.choice([100, 100, 200, 250, 300, 300, 400, rng.randint(50, 500)])
        size = None if rng.random() < 0.1 else rng.randint(8, 24)     # units 1/8; None = NaN
        rows.append(dict(pos=p, mass=mass, size=size, ecc=rng.randint(0, 8), signal=rng.randint(5, 60),
                         raw=rng.choice([mass * 3, mass // 2, rng.randint(0, 3000)])))
    return dict(stream="synthetic", kind="noise", shape=shape, img_seed=rng.randint(0, 10 ** 9),
                diameter=diameter, separation=rng.choice([None, None, [4, 4], [6.5, 3]]),
                noise_size=rng.choice([[1, 1], [1, 1], [1, 1.5]]), percentile=64,
                preprocess=rng.random() < 0.7, dtype="uint8", noise_hi=rng.choice([10, 40]),
                inject=rows, grid_seed=rng.randint(0, 10 ** 9))


def gen_cases(ctx):
    for inp in ctx.corpus():
        yield inp
    for i in range(ctx.n(170, 1700)):
        yield gen_image_case(ctx.rng("image", i), i)
    for i in range(ctx.n(60, 600)):
        yield gen_synth_case(ctx.rng("synthetic", i), i)


# ------------------------------------------------------------------------------------------
# filter grid (symbolic specs, resolved against the unrestricted result)

def grid_specs(inp, rng, n, iso_diameter):
    """list of (mm_spec, ms_spec, tn_spec).  mm: number | ['q', f] mid-quantile | ['at', f] exactly the
    mass at that quantile | ['above'].  ms likewise over sizes (None = no maxsize) | ['below'].
    tn: None | int | ['half'] | ['all'] | ['more']"""
    if inp.get("grid") is not None:
        return [tuple(g) for g in inp["grid"]]
    mms = [0, 0, ["q", 0.25], ["q", 0.5], ["q", 0.75], ["at", 0.3], ["at", 0.6], ["above"], ["q", 0.1]]
    mss = [None, None, None, ["q", 0.5], ["q", 0.75], ["at", 0.5], ["below"], ["q", 0.3]] if iso_diameter else [None]
    tns = [None, None, None, 1, 2, 3, ["half"], ["all"], ["more"]]
    out = [(["q", 0.5], None, None), (0, None, ["half"]), (["at", 0.5], None, None), (0, None, 1)]
    if iso_diameter:
        out.append((0, ["q", 0.5], None))
    while len(out) < n:
        out.append((rng.choice(mms), rng.choice(mss), rng.choice(tns)))
    return out[:n]


def resolve(spec, values, kind):
    if spec is None or isinstance(spec, (int, float)):
        return spec
    v = sorted(float(x) for x in values if not math.isnan(float(x)))
    if not v:
        return 0 if kind == "mm" else (None if kind == "ms" else 1)
    tag = spec[0]
    if tag == "q":
        k = min(len(v) - 1, max(1, int(round(spec[1] * len(v)))))
        return (v[k - 1] + v[k]) / 2.0 if len(v) > 1 else v[0] / 2.0
    if tag == "at":
        return v[min(len(v) - 1, int(spec[1] * len(v)))]
    if tag == "above":
        return v[-1] + 1.0
    if tag == "below":
        return v[0] / 2.0
    if tag == "half":
        return max(1, len(v) // 2)
    if tag == "all":
        return len(v)
    if tag == "more":
        return len(v) + 3
    raise ValueError(spec)


# ------------------------------------------------------------------------------------------
# helpers

def pos_columns(nd):
    return ["z", "y", "x"][-nd:]


def fnum(x):
    """float -> protocol token"""
    x = float(x)
    if math.isnan(x):
        return "nan"
    return common.rat_str(Fraction(x))


def feq(a, b, tol):
    a, b = float(a), float(b)
    if math.isnan(a) or math.isnan(b):
        return math.isnan(a) and math.isnan(b)
    if math.isinf(a) or math.isinf(b):
        return a == b
    return abs(a - b) <= tol * max(abs(a), abs(b), 1e-300)


def xr_to_float(tok):
    if tok == "nan":
        return float("nan")
    if tok == "inf":
        return float("inf")
    if tok == "-inf":
        return float("-inf")
    return float(Fraction(tok))


def run_locate(img, inp, mm, ms, tn):
    import trackpy as tp
    CAP.pop("refined", None)
    CAP.pop("noise", None)
    CAP.pop("scale", None)
    kw = dict(minmass=mm, maxsize=ms, topn=tn, noise_size=tuple(inp["noise_size"]),
              percentile=inp["percentile"], preprocess=inp["preprocess"], engine="python")
    if inp.get("separation") is not None:
        kw["separation"] = tuple(inp["separation"])
    # the same pixel values in another memory layout (the same one for every call of a case)
    from .c06 import memory_layout
    img = memory_layout(img, int(img.size) + int(inp.get("grid_seed", 0)))[0]
    with warnings.catch_warnings():
        warnings.simplefilter("ignore")
        with np.errstate(all="ignore"):
            out = tp.locate(img, tuple(inp["diameter"]), **kw)
    return out, CAP.get("refined"), CAP.get("noise"), CAP.get("scale")


def build_inject(inp):
    import pandas as pd
    rows = inp["inject"]
    nd = len(inp["shape"])
    pc = pos_columns(nd)
    iso = len(set(inp["diameter"])) == 1
    data = {}
    for k, c in enumerate(pc):
        data[c] = [r["pos"][k] / 8.0 for r in rows]
    data["mass"] = [float(r["mass"]) for r in rows]
    szs = [float("nan") if r["size"] is None else r["size"] / 8.0 for r in rows]
    if iso:
        data["size"] = szs
    else:
        for c in pc:
            data["size_" + c] = szs
    data["ecc"] = [r["ecc"] / 8.0 for r in rows]
    data["signal"] = [float(r["signal"]) for r in rows]
    data["raw_mass"] = [float(r["raw"]) for r in rows]
    return pd.DataFrame(data)


# ------------------------------------------------------------------------------------------

def run_case(ctx, inp):
    import trackpy.feature as F
    from trackpy.uncertainty import _root_sum_x_squared
    from trackpy.masks import N_binary_mask
    res = Result()
    img = make_image(inp)
    shape = img.shape
    nd = img.ndim
    pc = pos_columns(nd)
    diameter = tuple(inp["diameter"])
    radius = tuple(d // 2 for d in diameter)
    iso_d = len(set(diameter)) == 1
    iso_ns = len(set(inp["noise_size"])) == 1
    ep_scalar = iso_d and iso_ns
    epcols = ["ep"] if ep_scalar else ["ep_" + c for c in pc]
    sepv = tuple(float(s) for s in (inp["separation"] or [d + 1 for d in diameter]))
    stream = inp.get("stream", "image")
    res.stat("cases")
    res.stat("stream_" + stream)
    res.stat("kind_" + inp["kind"])
    res.stat("ndim_%d" % nd)
    res.stat("diameter_iso" if iso_d else "diameter_aniso")
    res.stat("ep_scalar" if ep_scalar else "ep_per_axis")
    res.stat("preprocess_on" if inp["preprocess"] else "preprocess_off")
    res.stat("dtype_" + inp.get("dtype", "uint8"))
    sig0 = dict(stream=stream) if stream != "image" else {}
    seen = set()

    def pv(what, msg, **kw):
        if what in seen:
            return
        seen.add(what)
        res.violation("property-violation", msg, broken=what, signature=dict(sig0, what=what), **kw)

    CAP["inject"] = build_inject(inp) if inp.get("inject") is not None else None
    try:
        return _run(ctx, inp, res, img, shape, nd, pc, diameter, radius, iso_d, ep_scalar, epcols, sepv, pv,
                    _root_sum_x_squared, N_binary_mask)
    finally:
        CAP["inject"] = None


def _run(ctx, inp, res, img, shape, nd, pc, diameter, radius, iso_d, ep_scalar, epcols, sepv, pv,
         _root_sum_x_squared, N_binary_mask):
    rng = ctx.rng("grid", inp.get("grid_seed", 0))
    U, refU, noiseU, scaleU = run_locate(img, inp, 0, None, None)
    nU = len(U)
    res.stat("unrestricted_rows", nU)
    if refU is None or len(refU) == 0:
        res.stat("no_maxima")
        return res
    if nU == 0:
        res.stat("unrestricted_empty")
    cm = [float(v) for v in _root_sum_x_squared(radius, nd)]
    npx = int(N_binary_mask(radius, nd))
    if noiseU is not None:
        res.stat("noise_nan" if math.isnan(noiseU[1]) else "noise_measured")
    specs = grid_specs(inp, rng, ctx.n(12, 30) if inp.get("grid") is None else len(inp["grid"]), iso_d)
    masses = list(U["mass"].values) if nU else []
    sizes = list(U["size"].values) if (nU and "size" in U) else []

    # ---- the unrestricted call itself --------------------------------------------------------
    calls = [(0, None, None, U, refU, noiseU, scaleU)]
    fcache = {(0.0, None): U}
    cut_any = False
    for (mms, mss, tns) in specs:
        mm = resolve(mms, masses, "mm")
        ms = resolve(mss, sizes, "ms") if iso_d else None
        tn = resolve(tns, masses, "tn")
        R, ref, noise, scale = run_locate(img, inp, mm, ms, tn)
        calls.append((mm, ms, tn, R, ref, noise, scale))
        if 0 < len(R) < nU:
            cut_any = True
    res.nontrivial = nU >= 3 and cut_any

    cleaned = []
    for ci, (mm, ms, tn, R, ref, noise, scale) in enumerate(calls):
        res.stat("locate_calls")
        # the stages before the filters must not depend on the filters
        if ref is None or not ref.equals(refU) or scale != scaleU:
            res.violation("harness-error", "refine_com's table / scale factor changed between calls")
            return res
        if noise is not None and noiseU is not None and not (feq(noise[0], noiseU[0], 0) and feq(noise[1], noiseU[1], 0)):
            res.violation("harness-error", "measure_noise changed between calls")
            return res
        Ff = None
        if tn is not None:
            key = (float(mm), None if ms is None else float(ms))
            if key not in fcache:
                fcache[key] = run_locate(img, inp, mm, ms, None)[0]
            Ff = fcache[key]
        cleaned.append(oracle(res, pv, shape, sepv, pc, epcols, ep_scalar, U, Ff, R, mm, ms, tn))
    noise_any = noiseU
    for c in calls:
        if c[5] is not None:
            noise_any = c[5]
    if len(refU) > MAX_MODEL_ROWS:
        res.stat("model_skipped_large_table")
    else:
        correspondence(ctx, res, inp, pc, epcols, ep_scalar, sepv, cm, npx, calls, cleaned, refU, noise_any, scaleU)
    if res.nontrivial and not res.viol and res.sample is None:
        res.sample = dict(input=dict(kind=inp["kind"], shape=list(shape), diameter=list(diameter),
                                     stream=inp.get("stream", "image")),
                          unrestricted_rows=nU, refined_rows=len(refU),
                          triples=[[None if v is None else (float(v) if not isinstance(v, int) else v)
                                    for v in c[:3]] + [len(c[3])] for c in calls[:5]])
    return res


# ------------------------------------------------------------------------------------------
# the direct oracle (statement only)

def rowkey(df, pc, i):
    return tuple(float(df[c].values[i]) for c in pc)


def oracle(res, pv, shape, sepv, pc, epcols, ep_scalar, U, Ff, R, mm, ms, tn):
    """returns R without phantom rows (rows that have no position)"""
    n = len(R)
    if n == 0:
        res.stat("result_empty")
        return R
    # rows that are not features at all
    posnan = np.isnan(R[pc].values).any(axis=1)
    if posnan.any():
        nF = None if Ff is None else int((~np.isnan(Ff[pc].values).any(axis=1)).sum()) if len(Ff) else 0
        what = ("ep-misaligned-anisotropic-minmass" if (nF is None or nF < len(U))
                else "ep-misaligned-anisotropic-topn") if not ep_scalar else "row-without-position"
        pv(what, "locate(minmass=%r, maxsize=%r, topn=%r) returned %d row(s) without position/mass "
           "(ep cells only) next to %d feature rows" % (mm, ms, tn, int(posnan.sum()), int((~posnan).sum())),
           impl=R.head(12).to_string())
        R = R.loc[~posnan]
        n = len(R)
        if n == 0:
            return R
    m = R["mass"].values.astype(float)
    if not (m > mm).all():
        pv("mass-not-above-minmass", "a returned row has mass %r <= minmass %r" % (float(np.nanmin(m)), mm))
    if ms is not None:
        s = R["size"].values.astype(float)
        if not (s < ms).all():
            pv("size-not-below-maxsize", "a returned row has size %r >= maxsize %r (or NaN)"
               % (float(np.nanmax(s)) if not np.isnan(s).all() else float("nan"), ms))
    P = R[pc].values.astype(float)
    for k in range(len(pc)):
        if not ((P[:, k] >= -0.5) & (P[:, k] <= shape[k] - 0.5)).all():
            pv("outside-image", "a returned position lies outside the image along %s" % pc[k])
    if n > 1 and all(s > 0 for s in sepv):
        Q = P / np.array(sepv)
        d2 = ((Q[:, None, :] - Q[None, :, :]) ** 2).sum(-1)
        d2[np.arange(n), np.arange(n)] = np.inf
        if d2.min() < (1 - 1e-6) ** 2:
            i, j = np.unravel_index(np.argmin(d2), d2.shape)
            pv("closer-than-separation", "rows at %r and %r are at rescaled distance %.6f < 1"
               % (tuple(P[i]), tuple(P[j]), math.sqrt(d2.min())))
    # topn
    if tn is not None and tn >= 1 and Ff is not None:
        fm = np.sort(Ff["mass"].values.astype(float)) if len(Ff) else np.array([])
        fm = fm[~np.isnan(fm)] if len(fm) else fm
        if n > tn:
            pv("topn-too-many", "topn=%d returned %d rows" % (tn, n))
        elif n != min(tn, len(fm)):
            pv("topn-too-few", "topn=%d returned %d rows, the call without topn returns %d"
               % (tn, n, len(fm)))
        else:
            want = fm[len(fm) - n:]
            got = np.sort(m)
            if not np.array_equal(want, got):
                pv("topn-not-heaviest", "topn=%d: returned masses %r are not the %d largest of %r"
                   % (tn, got.tolist()[:8], n, fm.tolist()[-8:]))
    # subset of the unrestricted result with equal values
    ukeys = {}
    for i in range(len(U)):
        ukeys.setdefault(rowkey(U, pc, i), []).append(i)
    used = set()
    cols = [c for c in U.columns]
    if len(U) and list(R.columns) != cols:
        pv("columns-differ", "columns %r vs unrestricted %r" % (list(R.columns), cols))
    else:
        Uv = U[cols].values.astype(float) if len(U) else np.zeros((0, len(cols)))
        Rv = R[cols].values.astype(float)
        epidx = [cols.index(c) for c in epcols if c in cols]
        for i in range(n):
            cands = [j for j in ukeys.get(rowkey(R, pc, i), []) if j not in used]
            if not cands:
                pv("row-not-in-unrestricted", "row at %r (minmass=%r, maxsize=%r, topn=%r) does not occur "
                   "in the unrestricted result" % (rowkey(R, pc, i), mm, ms, tn))
                continue
            best = None
            for j in cands:
                diff = [k for k in range(len(cols))
                        if not feq(Rv[i, k], Uv[j, k], 1e-12)]
                if best is None or len(diff) < len(best[1]):
                    best = (j, diff)
            used.add(best[0])
            if best[1]:
                only_ep = all(k in epidx for k in best[1])
                if only_ep and not ep_scalar:
                    nF = None if Ff is None else (int((~np.isnan(Ff[pc].values).any(axis=1)).sum()) if len(Ff) else 0)
                    what = ("ep-misaligned-anisotropic-minmass" if (nF is None or nF < len(U))
                            else "ep-misaligned-anisotropic-topn")
                else:
                    what = "kept-row-value-changed"
                pv(what, "row at %r: column(s) %r differ from the unrestricted result "
                   "(minmass=%r, maxsize=%r, topn=%r): %r vs %r"
                   % (rowkey(R, pc, i), [cols[k] for k in best[1]], mm, ms, tn,
                      [float(Rv[i, k]) for k in best[1]], [float(Uv[best[0], k]) for k in best[1]]),
                   impl=R.head(12).to_string(), model=U.head(12).to_string())
    # ep
    for c in epcols:
        if c in R:
            e = R[c].values.astype(float)
            if (e < 0).any():
                k = int(np.argmin(e))
                pv("ep-negative", "%s = %r for the row at %r (raw_mass %r)"
                   % (c, float(e[k]), rowkey(R, pc, k), float(R["raw_mass"].values[k])))
                res.stat("ep_negative_rows", int((e < 0).sum()))
            res.stat("ep_cells_nan", int(np.isnan(e).sum()))
            res.stat("ep_cells", len(e))
        elif n:
            pv("ep-column-missing", "column %s missing" % c)
    return R


# ------------------------------------------------------------------------------------------
# correspondence with the Lean model

def feat_line(ref, pc, iso_d):
    cols = list(ref.columns)
    extra = [c for c in cols if c not in pc + ["mass", "signal", "raw_mass"] and not (iso_d and c == "size")]
    out = []
    for i in range(len(ref)):
        row = ref.iloc[i]
        size = fnum(row["size"]) if (iso_d and "size" in cols) else "nan"
        ex = ",".join(fnum(row[c]) for c in extra) or "-"
        out.append("%d %s %s %s %s %s %s" % (i, ",".join(fnum(row[c]) for c in pc), fnum(row["mass"]), size,
                                              fnum(row["signal"]), fnum(row["raw_mass"]), ex))
    return " ; ".join(out), extra


_DEN = {}     # (black_level, N_binary_mask) of the case being compared: the ep denominator is
              # raw_mass - N*black; when it is 0 to within float rounding the code divides by a
              # rounded 0 (-> inf) where the exact model sees a tiny non-zero number: borderline


def correspondence(ctx, res, inp, pc, epcols, ep_scalar, sepv, cm, npx, calls, cleaned, ref, noise, scale):
    iso_d = len(set(inp["diameter"])) == 1
    feats, extra = feat_line(ref, pc, iso_d)
    black, sd = (noise if noise is not None else (float("nan"), float("nan")))
    _DEN["v"] = (black, npx)
    hdr = "sep=%s scale=%s black=%s noise=%s npx=%d iso=%d nsz=%s cm=%s" % (
        ",".join(fnum(s) for s in sepv), fnum(scale), fnum(black), fnum(sd), npx, 1 if ep_scalar else 0,
        ",".join(fnum(v) for v in inp["noise_size"]), ",".join(fnum(v) for v in cm))
    todo = [(c, R) for c, R in zip(calls, cleaned) if c[2] is None or c[2] >= 1]
    triples = " ; ".join("%s %s %s" % (fnum(c[0]), "n" if c[1] is None else fnum(c[1]),
                                       "n" if c[2] is None else str(int(c[2]))) for c, _ in todo)
    resp = ctx.ask("C08POST %s | %s | %s" % (hdr, feats, triples))
    parts = resp.split(" | ")
    m0 = common.kv(parts[0])
    if m0.get("ok") != "1" or m0.get("sorted") != "1" or len(parts) != len(todo) + 1:
        res.violation("harness-error", "model rejected the request: %r" % resp[:300])
        return
    n0, ndd = int(m0["n0"]), int(m0["nd"])
    res.stat("model_requests")
    res.stat("refined_rows", n0)
    res.stat("dedupe_removed_rows", n0 - ndd)
    res.stat("duplicate_pairs", int(m0["dpairs"]))
    if m0["dmargin"] == "0":
        res.stat("cases_with_pair_exactly_at_separation")
    if n0 > ndd:
        res.stat("cases_with_duplicates")
    if int(m0["dties"]) > 0:
        res.stat("cases_with_equal_mass_duplicates")
        # equal mass: where_close then compares the two FLOAT sums of pos/separation.  When rounding
        # orders them differently from the exact sums (exactly equal rationals such as 23.125/6 + 40/6
        # vs 25.5/6 + 37.625/6, or positions one ulp apart) the exact model cannot know which row
        # rounding favours -> borderline
        P = ref[pc].values.astype(float)
        M = ref["mass"].values.astype(float)
        sv = np.asarray(sepv, dtype=float)
        if (sv > 0).all():
            PR = P / sv
            fs = PR.sum(1)

            def sgn(v):
                return (v > 0) - (v < 0)
            for i in range(len(P)):
                for j in range(i + 1, len(P)):
                    if M[i] == M[j] and float(((PR[i] - PR[j]) ** 2).sum()) < 1.0 + 1e-6:
                        ex = sum(Fraction(float(a)) / Fraction(float(b)) for a, b in zip(P[i], sv)) - \
                            sum(Fraction(float(a)) / Fraction(float(b)) for a, b in zip(P[j], sv))
                        if sgn(ex) != sgn(float(fs[i]) - float(fs[j])):
                            res.borderline = True
                            res.stat("cases_borderline_tie_decided_by_rounding")
                            return
    if m0["dmargin"] != "n" and 0 < Fraction(m0["dmargin"]) and float(Fraction(m0["dmargin"])) < 1e-6:
        res.borderline = True
        res.stat("cases_borderline_duplicate_distance")
        return
    for (c, R), part in zip(todo, parts[1:]):
        compare_call(res, inp, pc, epcols, ref, ndd, c[0], c[1], c[2], R, common.kv(part), part)


def compare_call(res, inp, pc, epcols, ref, ndd, mm, ms, tn, R, m, resp):
    nf = int(m["nf"])
    res.stat("model_calls")
    res.stat("filter_removed_rows", ndd - nf)
    if m["cuttie"] == "1":
        res.stat("calls_topn_cut_tied")
    rows = []
    if isinstance(m.get("rows"), str):
        for tok in m["rows"].split(";"):
            if tok:
                t, mass, sig, ep = tok.split(":")
                rows.append((int(t), Fraction(mass), sig, ep.split(",")))
    if tn is not None and nf > tn:
        res.stat("calls_topn_cuts")
    if ndd - nf > 0:
        res.stat("calls_filter_cuts")
    if not rows:
        res.stat("calls_empty_result")

    def small(tok, ref_):
        if tok in (None, "n", True):
            return False
        v = Fraction(tok)
        return v != 0 and float(v) < 1e-9 * max(1.0, abs(ref_))
    if m.get("mmargin") == "0":
        res.stat("calls_mass_equals_minmass")
    if ms is not None and m.get("smargin") == "0":
        res.stat("calls_size_equals_maxsize")
    if small(m.get("mmargin"), float(mm)) or (ms is not None and small(m.get("smargin"), float(ms))):
        # a mass / size within rounding of the threshold (the mass was divided by a scale factor != 1):
        # rows at the threshold are left out on both sides; with topn the selection itself may differ
        res.stat("calls_borderline_threshold")
        if tn is not None:
            return

        def at_thr(mass, size):
            if abs(mass - float(mm)) <= 1e-9 * max(1.0, abs(float(mm))):
                return True
            return ms is not None and not math.isnan(size) and abs(size - float(ms)) <= 1e-9 * max(1.0, abs(float(ms)))
        rows = [r for r in rows if not at_thr(float(r[1]), float(ref["size"].values[r[0]]) if "size" in ref else float("nan"))]
        keepR = [not at_thr(float(a), float(b)) for a, b in
                 zip(R["mass"].values, R["size"].values if "size" in R else [float("nan")] * len(R))]
        R = R.loc[keepR] if len(R) else R
    if res.viol:
        # the direct oracle already reported this case; do not add model differences on top
        return

    def brk(what, msg):
        res.violation("correspondence-break", msg, impl=R.head(12).to_string() if len(R) else "empty",
                      model=resp[:1500], broken="locatePost", signature=dict(what=what))

    if len(rows) != len(R):
        brk("model-row-count", "model returns %d rows, locate %d (minmass=%r maxsize=%r topn=%r)"
            % (len(rows), len(R), mm, ms, tn))
        return
    if not rows:
        return
    if m["cuttie"] == "1":
        a = sorted(float(r[1]) for r in rows)
        b = sorted(float(v) for v in R["mass"].values)
        if any(not feq(x, y, 1e-12) for x, y in zip(a, b)):
            brk("model-mass-multiset", "topn cut tied: mass multisets differ")
        return
    # expected rows from the model: refined row `tag` with mass / signal / ep replaced
    cols = list(R.columns)
    Rv = R[cols].values.astype(float)

    def exp_row(r):
        t, mass, sig, ep = r
        d = {c: float(ref[c].values[t]) for c in ref.columns}
        d["mass"] = float(mass)
        d["signal"] = xr_to_float(sig)
        for c, e in zip(epcols, ep):
            d[c] = xr_to_float(e)
        return d
    exp = [exp_row(r) for r in rows]
    if m["anytie"] == "1" and tn is not None and nf > tn:
        oi = sorted(range(len(exp)), key=lambda i: tuple(exp[i][c] for c in pc) + (exp[i]["raw_mass"],))
        oj = sorted(range(len(R)), key=lambda j: tuple(Rv[j, cols.index(c)] for c in pc) + (Rv[j, cols.index("raw_mass")],))
    else:
        oi = list(range(len(exp)))
        oj = list(range(len(R)))
        res.stat("calls_order_compared")
    for i, j in zip(oi, oj):
        for k, c in enumerate(cols):
            tol = 1e-9 if c in epcols else 1e-12
            if c in epcols and "v" in _DEN and "raw_mass" in cols:
                bl, nn = _DEN["v"]
                rm = Rv[j, cols.index("raw_mass")]
                if bl == bl and abs(rm - nn * bl) <= 1e-9 * max(1.0, abs(rm)):
                    res.stat("ep_cells_denominator_borderline")
                    continue
            if c not in exp[i]:
                brk("model-column", "column %s unknown to the model" % c)
                return
            if not feq(exp[i][c], Rv[j, k], tol):
                brk("model-value", "row tag=%d column %s: model %r, locate %r (minmass=%r maxsize=%r topn=%r)"
                    % (rows[i][0], c, exp[i][c], float(Rv[j, k]), mm, ms, tn))
                return
