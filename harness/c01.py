"""C01 — linking returns a valid labelling and preserves the caller's data.

Streams
  movie : generated movies through link_iter / link / link_df_iter with every link_strategy; the
          implementation's labels are judged step by step by the monitor (`LRUN`,
          Model/Linker.lean; theorems Props/C01: accepted_valid, label_never_restarts).
  table : `tp.link` on tables with shuffled rows, unusual indexes (strings, duplicates, shuffled
          ints, index named 'frame'), payload columns, float-typed frame column, missing frames:
          row/index/value preservation, integer frame, ordering by frame and purity (caller's table
          unchanged) are checked by the direct oracle; the labels again by the monitor.
          FUNCTION MODE (Model/LinkTable.lean, theorems Props/C01Table): `link_iter` as seen from
          `link` is wrapped to capture the levels `link` fed to it and the ids it returned; the
          input rows, the sort permutation observed in the output, the captured levels and ids go
          to the model (`LTABLE`), which recomputes the levels from the table (`coordsFromDf`) and
          the labelled output (`linkTable`); levels and final rows are compared exactly.
  itable: `tp.link_df_iter` on per-frame tables with odd indexes / payload / float frames / empty
          tables, same function-mode comparison against `linkDfIter` (`LTITER`) + purity.
"""
import numpy as np

from . import common, linkcommon
from .common import Result

PROP = "C01"
RULE = ("movies: 1-3 D integer lattices, 2-8 (thorough: up to 25) frames, 0-12 (40) features per "
        "frame, empty/missing frames, duplicate positions, exact-range distances, memory 0-3, "
        "scalar or per-axis search_range, all strategies x 3 entry points; tables (link and "
        "link_df_iter): shuffled rows, odd indexes (strings, duplicates, named 'frame'), payload "
        "columns, float / non-integral / negative frames, missing frames, single-frame tables, each "
        "also through the function-mode comparison with Model/LinkTable.lean.  Non-trivial = at least one contested sub-net or one "
        "memory re-link (counted by the monitor), or a table with a non-default index; distinct = "
        "distinct canonical input.")
ASSUMPTIONS = [
    "coordinates are integers and search ranges multiples of 1/4, so every squared distance and the "
    "comparison with search_range**2 is exact in float64; the +1e-7 slack of HashKDTree.query is "
    "modelled as an inclusive comparison",
    "numba strategies run interpreted (numba absent); BTree / dist_func / to_eucl are not exercised "
    "(scikit-learn absent)",
    "for the iterator entry points the gap bound is counted in iterator steps; for `link` missing "
    "frames count as elapsed frames (they become empty levels)",
    "'same index' compares index values; pandas_sort's documented renaming of a clashing index "
    "name is not a violation",
    "table adapters (function mode): index labels and the non-coordinate columns travel to the model "
    "as integer tokens (equal label <-> equal token); the sort permutation is read off the OUTPUT "
    "table (unique tag column, else first unused identical row) and only required to be a "
    "frame-sorted permutation (pandas' default sort is not stable); 'frame coerced to integer' is "
    "truncation toward zero, as astype(np.int64) does for non-integral float frames; link_iter is "
    "wrapped (monkeypatched module global, no repo edit) to observe the levels link feeds to it",
]
MIN_NONTRIVIAL = 20
STRATEGIES = ["recursive", "nonrecursive", "numba", "hybrid", "auto", "drop", None]


def init(ctx):
    common.setup_repo_path()


# index names that are not a column of the table ("same index": the name comes back as it went in);
# several are substrings of 'frame' / 'particle'
OTHER_INDEX_NAMES = ["feature_id", "am", "f", "me", "fra", "art", "id", "ram", "x_index", "e"]


def gen_cases(ctx):
    for inp in ctx.corpus():
        yield inp
    n = ctx.n(360, 3000)
    for i in range(n):
        rng = ctx.rng("movie", i)
        mv = linkcommon.gen_movie(rng, thorough=ctx.thorough, plant_history=(i % 2 == 0))
        mv["stream"] = "movie"
        mv["entry"] = linkcommon.ENTRIES[i % 3]
        mv["strategy"] = STRATEGIES[(i // 3) % len(STRATEGIES)]
        if mv["entry"] == "link" and len(mv["frames"]) > 3 and rng.random() < 0.4:
            k = rng.randrange(1, len(mv["frames"]) - 1)
            mv["missing"] = [k]
            mv["frames"][k] = []
        yield mv
    m = ctx.n(120, 1200)
    for i in range(m):
        rng = ctx.rng("table", i)
        mv = linkcommon.gen_movie(rng, thorough=False)
        mv["stream"] = "table"
        mv["scale_pow"] = 0
        mv["entry"] = "link"
        mv["index_kind"] = rng.choice(["range", "shuffled", "strings", "duplicates", "named_frame",
                                       "named_other"])
        mv["float_frames"] = rng.random() < 0.4
        mv["payload"] = rng.random() < 0.7
        mv["row_seed"] = rng.randrange(10 ** 6)
        # extra table shapes for the function-mode comparison (drawn last: older fields unchanged)
        mv["frac_frames"] = mv["float_frames"] and rng.random() < 0.3
        if rng.random() < 0.25:
            mv["t0"] = rng.choice([-1, -3, -6])
        shape = rng.random()
        nfr = len(mv["frames"])
        if shape < 0.12:
            k = rng.randrange(nfr)
            mv["frames"] = [pts if j == k else [] for j, pts in enumerate(mv["frames"])]
            mv["shape"] = "single_frame"
        elif shape < 0.45 and nfr > 2:
            for k in rng.sample(range(1, nfr - 1), rng.randint(1, min(2, nfr - 2))):
                mv["frames"][k] = []
            mv["shape"] = "missing_frames"
        yield mv
    m2 = ctx.n(60, 1200)
    for i in range(m2):
        rng = ctx.rng("itable", i)
        mv = linkcommon.gen_movie(rng, thorough=False)
        mv["stream"] = "itable"
        mv["scale_pow"] = 0
        mv["entry"] = "link_df_iter"
        mv["index_kind"] = rng.choice(["range", "shuffled", "strings", "duplicates", "named_frame",
                                       "named_other"])
        mv["float_frames"] = rng.random() < 0.4
        mv["payload"] = rng.random() < 0.7
        mv["row_seed"] = rng.randrange(10 ** 6)
        yield mv


class _LinkIterSpy:
    """wraps trackpy.linking.linking.link_iter (module global used by link / link_df_iter) to record
    the levels it is fed and the ids it yields; no edits to the repo."""

    def __init__(self):
        self.levels = []
        self.ids = []

    def __enter__(self):
        import trackpy.linking.linking as L
        self.mod = L
        self.orig = L.link_iter
        spy = self

        def link_iter(coords_iter, *args, **kw):
            def tee():
                for t, c in coords_iter:
                    spy.levels.append((t, np.array(c, dtype=float, copy=True)))
                    yield t, c
            for t, ids in spy.orig(tee(), *args, **kw):
                spy.ids.append([int(i) for i in ids])
                yield t, ids
        L.link_iter = link_iter
        return self

    def __exit__(self, *a):
        self.mod.link_iter = self.orig
        return False


def _int_pts(arr):
    """coordinates are integers by construction; returns None if the implementation changed them"""
    pts = []
    for row in np.asarray(arr, dtype=float).reshape(len(arr), -1):
        r = []
        for v in row:
            if not np.isfinite(v) or v != round(v):
                return None
            r.append(int(round(v)))
        pts.append(r)
    return pts


def _pts_str(pts, sep):
    return sep.join(",".join(str(c) for c in p) for p in pts)


class _Tokens:
    """index values and payload tuples -> small integer tokens (first occurrence order)"""

    def __init__(self):
        self.d = {}

    def __call__(self, key):
        return self.d.setdefault(key, len(self.d))


def _row_fields(df, cols, payload, idx_tok, pay_tok):
    """per row: (index token, frame as Fraction, coords, payload token)"""
    from fractions import Fraction
    out = []
    masses = df["mass"].values if payload else None
    tags = df["tag"].values if payload else None
    cvals = df[cols].values
    fvals = df["frame"].values
    for j, ix in enumerate(df.index):
        pts = _int_pts(cvals[j:j + 1])
        if pts is None:
            return None
        pay = pay_tok((float(masses[j]), str(tags[j]))) if payload else 0
        out.append((idx_tok((type(ix).__name__, str(ix))), Fraction(float(fvals[j]))
                    if not isinstance(fvals[j], (int, np.integer)) else Fraction(int(fvals[j])),
                    pts[0], pay))
    return out


def _row_req(r):
    return "%d %s %s %d" % (r[0], common.rat_str(r[1]), ",".join(map(str, r[2])), r[3])


def table_function_mode(ctx, res, inp, df, out, spy, cols):
    """LTABLE: model recomputes levels and labelled rows from the input table, the sort permutation
    seen in the output, and the ids link_iter returned."""
    import math
    idx_tok, pay_tok = _Tokens(), _Tokens()
    rin = _row_fields(df, cols, inp["payload"], idx_tok, pay_tok)
    rout = _row_fields(out, cols, inp["payload"], idx_tok, pay_tok)
    if rin is None or rout is None:
        return          # non-integral coordinates: the oracle has already judged value preservation
    # --- sort permutation sigma: output position j holds input row sigma[j]
    pool = {}
    for i, r in enumerate(rin):
        key = (r[0], tuple(r[2]), r[3], math.trunc(r[1]))
        pool.setdefault(key, []).append(i)
    sigma = []
    for r in rout:
        key = (r[0], tuple(r[2]), r[3], math.trunc(r[1]))
        lst = pool.get(key)
        if not lst:
            return      # rows not preserved: already reported by the oracle
        sigma.append(lst.pop(0))
    # --- captured levels / ids
    lv_req, lv_cmp = [], []
    for t, arr in spy.levels:
        pts = _int_pts(arr) if len(arr) else []
        if pts is None or not isinstance(t, (int, np.integer)):
            res.violation("correspondence-break", "link fed a non-integer level to link_iter",
                          impl=[repr(t), np.asarray(arr).tolist()], broken="LinkTable.coordsFromDf",
                          signature=dict(stream="table", what="non-integer level"))
            return
        lv_req.append(("%d %s" % (int(t), _pts_str(pts, " "))).strip())
        lv_cmp.append("%d:%s" % (int(t), _pts_str(pts, "+")))
    ids_req = " ; ".join(" ".join(map(str, g)) for g in spy.ids)
    line = "LTABLE %s | %s | %s | %s" % (" ; ".join(_row_req(r) for r in rin),
                                         " ".join(map(str, sigma)), " ; ".join(lv_req), ids_req)
    m = common.kv(ctx.ask(line))
    res.stat("fm_tables")
    impl_levels = ";".join(lv_cmp)
    part = [int(v) for v in out["particle"].values]
    impl_rows = ";".join("%d:%d:%s:%d:%d" % (r[0], int(r[1]), ",".join(map(str, r[2])), r[3], p)
                         for r, p in zip(rout, part))
    why = None
    if m.get("status") != "ok":
        why = "model says link raises (%s) but it returned a table" % m.get("status")
        broken = "LinkTable.linkTable"
    elif m.get("sortperm") != "1":
        why = "output order is not a frame-sorted permutation of the input rows"
        broken = "LinkTable.SortPerm"
    elif m.get("levels") != impl_levels or m.get("lvmatch") != "1":
        why = "levels fed to link_iter differ from coordsFromDf of the sorted table"
        broken = "LinkTable.coordsFromDf / coordsFromDf_levels"
    elif m.get("lencond") != "1":
        why = "link_iter did not return one id per feature of every level"
        broken = "LinkTable.linkTable_total_labels (hypothesis)"
    elif m.get("rows") != impl_rows:
        why = "labelled rows differ from linkTable (positional write-back)"
        broken = "LinkTable.linkTable / linkTable_labels_match"
    if why is not None:
        res.violation("correspondence-break", why, impl=dict(levels=impl_levels, rows=impl_rows,
                      ids=spy.ids, sigma=sigma), model=m, broken=broken,
                      signature=dict(stream="table", what=why.split(" (")[0]))
        return
    res.stat("fm_levels", len(lv_cmp))
    res.stat("fm_empty_levels", sum(1 for _, a in spy.levels if len(a) == 0))
    res.stat("fm_rows", len(rin))
    if sigma != sorted(sigma):
        res.stat("fm_sigma_nonidentity")
    # is sigma unstable (rows of one frame not in input order)?
    byf = {}
    for j, i in enumerate(sigma):
        byf.setdefault(rout[j][1], []).append(i)
    if any(v != sorted(v) for v in byf.values()):
        res.stat("fm_sigma_unstable_within_frame")
    if any(r[1].denominator != 1 for r in rin):
        res.stat("fm_nonintegral_frames")
    if len(lv_cmp) == 1:
        res.stat("fm_single_level")


def coords_direct_mode(ctx, res, inp, df, cols):
    """coords_from_df called directly on the UNSORTED table (integer frames): the stable argsort /
    unique / split pipeline against coordsFromDf (theorem coordsFromDf_levels: rows of a frame in
    table order).  Inside `link` the table is already sorted, which hides the argsort."""
    from trackpy.linking.utils import coords_from_df
    d = df.copy()
    d["frame"] = np.trunc(d["frame"].values.astype(float)).astype(np.int64)
    idx_tok, pay_tok = _Tokens(), _Tokens()
    rin = _row_fields(d, cols, inp["payload"], idx_tok, pay_tok)
    if rin is None:
        return
    try:
        got = [(t, np.array(c, dtype=float)) for t, c in coords_from_df(d, cols, "frame")]
    except Exception as e:
        res.violation("correspondence-break", "coords_from_df raised %s on an unsorted table: %s"
                      % (type(e).__name__, str(e)[:150]), broken="LinkTable.coordsFromDf",
                      signature=dict(stream="table", what="coords_from_df raised"))
        return
    lv_req, lv_cmp = [], []
    for t, arr in got:
        pts = _int_pts(arr) if len(arr) else []
        if pts is None:
            pts = [[-999999]]
        lv_req.append(("%d %s" % (int(t), _pts_str(pts, " "))).strip())
        lv_cmp.append("%d:%s" % (int(t), _pts_str(pts, "+")))
    line = "LTABLE %s | %s | %s | -" % (" ; ".join(_row_req(r) for r in rin),
                                        " ".join(map(str, range(len(rin)))), " ; ".join(lv_req))
    m = common.kv(ctx.ask(line))
    res.stat("fm_direct_coords_from_df")
    if m.get("levels") != ";".join(lv_cmp) or m.get("lvmatch") != "1":
        res.violation("correspondence-break",
                      "coords_from_df on an unsorted table differs from coordsFromDf (stable order "
                      "within a frame / one level per integer frame)",
                      impl=";".join(lv_cmp), model=m, broken="LinkTable.coordsFromDf / coordsFromDf_levels",
                      signature=dict(stream="table", what="coords_from_df direct"))


def run_table_case(ctx, inp):
    import random
    import pandas as pd
    import trackpy as tp
    from trackpy.linking.utils import SubnetOversizeException
    res = Result()
    dim = inp["dim"]
    cols = {1: ["x"], 2: ["y", "x"], 3: ["z", "y", "x"]}[dim]
    rows = []
    for k, pts in enumerate(inp["frames"]):
        for p in pts:
            rows.append(list(map(float, p)) + [inp["t0"] + k])
    if not rows:
        res.stat("empty_table")
        return res
    rr = random.Random(inp["row_seed"])
    rr.shuffle(rows)
    df = pd.DataFrame(rows, columns=cols + ["frame"])
    df["frame"] = df["frame"].astype(float if inp["float_frames"] else int)
    n = len(df)
    if inp.get("frac_frames"):
        # non-integral float frames: astype(np.int64) truncates toward zero
        df["frame"] = df["frame"].values + np.array([rr.choice([0.0, 0.0, 0.25, 0.5, 0.75])
                                                     for _ in range(n)])
        res.stat("frac_frames")
    if inp.get("shape"):
        res.stat("shape_" + inp["shape"])
    if inp["payload"]:
        df["mass"] = [rr.randrange(1000) / 8.0 for _ in range(n)]
        df["tag"] = ["r%d" % i for i in range(n)]
    kind = inp["index_kind"]
    if kind == "shuffled":
        idx = list(range(100, 100 + n)); rr.shuffle(idx); df.index = idx
    elif kind == "strings":
        df.index = ["id%03d" % i for i in rr.sample(range(1000), n)]
    elif kind == "duplicates":
        df.index = [rr.randrange(max(1, n // 2)) for _ in range(n)]
    elif kind == "named_frame":
        df.index = pd.Index(df["frame"].values.copy(), name="frame")
    elif kind == "named_other":
        df.index = pd.Index(range(n), name=rr.choice(OTHER_INDEX_NAMES))
    before = df.copy(deep=True)
    kw = dict(memory=inp["memory"])
    if inp.get("default_cols") and dim >= 2:
        df = df[cols[::-1] + [c for c in df.columns if c not in cols]]   # x listed before y
        before = df.copy(deep=True)
    else:
        kw["pos_columns"] = cols
    spy = _LinkIterSpy()
    try:
        with spy:
            out = tp.link(df, linkcommon.search_range_arg(inp), **kw)
    except SubnetOversizeException:
        res.stat("oversize")
        return res
    except Exception as e:      # a valid table: nothing else may be raised
        res.violation("property-violation", "link raised %s: %s" % (type(e).__name__, str(e)[:200]),
                      signature=dict(stream="table", what="link raised " + type(e).__name__))
        return res
    res.stat("tables")
    res.stat("index_" + kind)
    res.nontrivial = kind != "range" or inp["payload"]
    # ---- purity
    try:
        pd.testing.assert_frame_equal(df, before, check_names=True)
        assert df.index.name == before.index.name
    except AssertionError as e:
        res.violation("property-violation", "caller's table was modified by link: %s" % str(e)[:300],
                      signature=dict(stream="table", what="caller-table-modified"))
    # ---- rows preserved
    msg = None
    if "particle" not in out.columns:
        msg = "no particle column"
    elif len(out) != n:
        msg = "row count changed %d -> %d" % (n, len(out))
    else:
        if not np.issubdtype(out["frame"].dtype, np.integer):
            msg = "frame column is not integer (%s)" % out["frame"].dtype
        fr = out["frame"].values
        if msg is None and np.any(np.diff(fr) < 0):
            msg = "rows are not ordered by frame"
        if msg is None and list(out.columns) != list(df.columns) + ["particle"]:
            msg = "columns changed: %s" % list(out.columns)
        # an index called like the frame column cannot keep its name (pandas: ambiguous), any other can
        if msg is None and df.index.name != "frame" and out.index.name != df.index.name:
            msg = "index name changed: %r -> %r" % (df.index.name, out.index.name)
        if msg is None:
            def keyrows(d, withidx):
                ks = []
                for ix, (_, r) in zip(d.index, d.iterrows()):
                    ks.append(tuple([str(ix)] + [float(r[c]) for c in cols] + [int(r["frame"])] +
                                    ([float(r["mass"]), r["tag"]] if inp["payload"] else [])))
                return sorted(ks)
            if keyrows(df, True) != keyrows(out, True):
                msg = "rows (index, coordinates, frame, payload) are not the input rows"
        if msg is None and not (np.issubdtype(out["particle"].dtype, np.integer)
                                and (out["particle"].values >= 0).all()):
            msg = "labels are not non-negative integers"
    if msg is not None:
        res.violation("property-violation", msg, impl=out.head(20).to_dict(),
                      signature=dict(stream="table", what=msg.split(":")[0]))
        return res
    # ---- the same table with its position (and frame) columns called otherwise: same labels
    if "pos_columns" in kw and inp["row_seed"] % 3 == 0:
        new = [["x0", "x1", "x2"], ["xc", "yc", "zc"], ["x_um", "y_um", "z_um"], ["col", "row", "plane"],
               [0, 1, 2]][(inp["row_seed"] // 3) % 5][:dim]
        fwd = dict(zip(cols, new))
        kw2 = dict(kw, pos_columns=new)
        tcol = "frame"
        if (inp["row_seed"] // 15) % 2 == 0 and df.index.name != "frame":
            tcol = ["t", "frame_no", "time"][(inp["row_seed"] // 30) % 3]
            fwd["frame"] = tcol
            kw2["t_column"] = tcol
        try:
            out2 = tp.link(df.rename(columns=fwd), linkcommon.search_range_arg(inp), **kw2)
        except Exception as e:
            res.violation("property-violation", "link with columns called %s / %s raised %s: %s"
                          % (new, tcol, type(e).__name__, str(e)[:200]),
                          signature=dict(stream="table", what="renamed-columns-raise"))
            return res
        res.stat("renamed_columns_compared")
        same = (len(out2) == len(out) and list(out2.index) == list(out.index)
                and list(out2["particle"].values) == list(out["particle"].values)
                and list(out2.columns) == [fwd.get(c, c) for c in out.columns])
        if not same:
            res.violation("property-violation", "link with columns called %s / %s gives other labels, "
                          "rows or columns than with %s / frame" % (new, tcol, cols),
                          impl=out2.head(20).to_dict(), model=out.head(20).to_dict(),
                          signature=dict(stream="table", what="renamed-columns"))
            return res
    # ---- function mode: the adapters against Model/LinkTable.lean
    table_function_mode(ctx, res, inp, df, out, spy, cols)
    coords_direct_mode(ctx, res, inp, df, cols)
    # ---- labels valid (monitor)
    fr = out["frame"].values
    levels = []
    for t in range(int(fr.min()), int(fr.max()) + 1):
        sub = out[out["frame"] == t]
        levels.append((t, [[int(round(v)) for v in row] for row in sub[cols].values],
                       [int(i) for i in sub["particle"].values]))
    m = common.kv(ctx.ask(linkcommon.lrun_line(inp, levels)))
    if m.get("verdict") not in ("ok", "capped"):
        omsg = linkcommon.oracle_levels(inp, levels, check_optimal=False)
        reason = str(m.get("reason")).replace("_", " ")
        if omsg is not None:
            res.violation("property-violation", omsg, impl=levels, model=m,
                          signature=dict(stream="table", what=reason))
        elif "minimum-cost" not in reason:
            res.violation("correspondence-break", "monitor rejected table output: " + reason,
                          impl=levels, model=m, broken="Linker.stepCheck",
                          signature=dict(stream="table", what=reason))
    return res


def run_itable_case(ctx, inp):
    """tp.link_df_iter on per-frame tables: oracle (rows of every yielded table = the given table +
    particle column; caller's tables untouched) and function mode against linkDfIter (LTITER)."""
    import random
    from fractions import Fraction
    import pandas as pd
    import trackpy as tp
    from trackpy.linking.utils import SubnetOversizeException
    res = Result()
    dim = inp["dim"]
    cols = {1: ["x"], 2: ["y", "x"], 3: ["z", "y", "x"]}[dim]
    rr = random.Random(inp["row_seed"])
    kind = inp["index_kind"]
    dfs = []
    tagc = 0
    for k, pts in enumerate(inp["frames"]):
        a = np.array(pts, dtype=float).reshape(len(pts), dim)
        df = pd.DataFrame(a, columns=cols)
        n = len(df)
        df["frame"] = np.full(n, inp["t0"] + k, dtype=float if inp["float_frames"] else int)
        if inp["payload"]:
            df["mass"] = [rr.randrange(1000) / 8.0 for _ in range(n)]
            df["tag"] = ["r%d" % (tagc + i) for i in range(n)]
            tagc += n
        if kind == "shuffled":
            idx = list(range(100, 100 + n)); rr.shuffle(idx); df.index = idx
        elif kind == "strings":
            df.index = pd.Index(["id%03d" % i for i in rr.sample(range(1000), n)], dtype=object)
        elif kind == "duplicates":
            df.index = [rr.randrange(max(1, n // 2)) for _ in range(n)]
        elif kind == "named_frame":
            df.index = pd.Index(df["frame"].values.copy(), name="frame")
        elif kind == "named_other":
            df.index = pd.Index(range(n), name=OTHER_INDEX_NAMES[inp["row_seed"] % len(OTHER_INDEX_NAMES)])
        dfs.append(df)
    before = [d.copy(deep=True) for d in dfs]
    spy = _LinkIterSpy()
    outs = []
    try:
        with spy:
            for o in tp.link_df_iter(iter(dfs), linkcommon.search_range_arg(inp), pos_columns=cols,
                                     memory=inp["memory"]):
                outs.append(o)
    except SubnetOversizeException:
        res.stat("oversize")
        return res
    except Exception as e:
        res.violation("property-violation", "link_df_iter raised %s: %s" % (type(e).__name__, str(e)[:200]),
                      signature=dict(stream="itable", what="link_df_iter raised " + type(e).__name__))
        return res
    res.stat("itables")
    res.stat("index_" + kind)
    res.nontrivial = kind != "range" or inp["payload"]
    # ---- purity
    for d, b in zip(dfs, before):
        try:
            pd.testing.assert_frame_equal(d, b, check_names=True)
            assert d.index.name == b.index.name
        except AssertionError as e:
            res.violation("property-violation", "a caller's frame table was modified by link_df_iter: "
                          + str(e)[:300], signature=dict(stream="itable", what="caller-table-modified"))
            return res
    # ---- oracle: every yielded table is the given one plus the particle column
    msg = None
    if len(outs) != len(dfs):
        msg = "yielded %d tables for %d given" % (len(outs), len(dfs))
    else:
        for k, (o, b) in enumerate(zip(outs, before)):
            if list(o.columns) != list(b.columns) + ["particle"]:
                msg = "columns changed: %s" % list(o.columns)
            elif o is dfs[k]:
                msg = "yielded table is the caller's object"
            else:
                try:
                    pd.testing.assert_frame_equal(o.drop(columns="particle"), b, check_names=True)
                except AssertionError as e:
                    msg = "rows of a yielded table are not the given rows: " + str(e)[:200]
                if msg is None and len(o) and not (np.issubdtype(o["particle"].dtype, np.integer)
                                                   and (o["particle"].values >= 0).all()):
                    msg = "labels are not non-negative integers"
                if msg is None and len(set(o["particle"].values)) != len(o):
                    msg = "label used twice in one frame"
            if msg is not None:
                break
    if msg is not None:
        res.violation("property-violation", msg, signature=dict(stream="itable", what=msg.split(":")[0]))
        return res
    # ---- function mode (LTITER)
    idx_tok, pay_tok = _Tokens(), _Tokens()
    tabs_in = [_row_fields(d, cols, inp["payload"], idx_tok, pay_tok) for d in dfs]
    tabs_out = [_row_fields(o, cols, inp["payload"], idx_tok, pay_tok) for o in outs]
    lv_cmp = []
    for t, arr in spy.levels:
        pts = _int_pts(arr) if len(arr) else []
        ts = "n" if t is None else common.rat_str(Fraction(float(t)))
        lv_cmp.append("%s:%s" % (ts, _pts_str(pts, "+")))
    ids_req = " ; ".join(" ".join(map(str, g)) for g in spy.ids) if spy.ids else "-"
    line = "LTITER %s | %s" % (" # ".join(" ; ".join(_row_req(r) for r in t) for t in tabs_in), ids_req)
    m = common.kv(ctx.ask(line))
    impl_tabs = "#".join(";".join("%d:%s:%s:%d:%d" % (r[0], common.rat_str(r[1]),
                                                      ",".join(map(str, r[2])), r[3], int(p))
                                  for r, p in zip(t, o["particle"].values))
                         for t, o in zip(tabs_out, outs))
    why = None
    if m.get("status") != "ok":
        why, broken = "model says link_df_iter raises but it did not", "LinkTable.linkDfIter"
    elif m.get("levels") != ";".join(lv_cmp):
        why, broken = "levels fed to link_iter differ from coordsFromDfIter", "LinkTable.coordsFromDfIter"
    elif m.get("tables") != (impl_tabs if impl_tabs else "-"):
        why, broken = "yielded tables differ from linkDfIter (positional labels)", "LinkTable.linkDfIter"
    if why is not None:
        res.violation("correspondence-break", why, impl=dict(levels=lv_cmp, tables=impl_tabs, ids=spy.ids),
                      model=m, broken=broken, signature=dict(stream="itable", what=why))
        return res
    res.stat("fm_itables")
    res.stat("fm_iter_levels", len(lv_cmp))
    res.stat("fm_iter_empty_tables", sum(1 for t in tabs_in if not t))
    return res


def run_case(ctx, inp):
    if inp.get("stream") == "table":
        return run_table_case(ctx, inp)
    if inp.get("stream") == "itable":
        return run_itable_case(ctx, inp)
    return linkcommon.run_movie_case(ctx, inp, want=("valid",), prop="C01")
