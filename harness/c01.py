"""C01 — linking returns a valid labelling and preserves the caller's data.

Streams
  movie : generated movies through link_iter / link / link_df_iter with every link_strategy; the
          implementation's labels are judged step by step by the monitor (`LRUN`,
          Model/Linker.lean; theorems Props/C01: accepted_valid, label_never_restarts).
  table : `tp.link` on tables with shuffled rows, unusual indexes (strings, duplicates, shuffled
          ints, index named 'frame'), payload columns, float-typed frame column, missing frames:
          row/index/value preservation, integer frame, ordering by frame and purity (caller's table
          unchanged) are checked by the direct oracle; the labels again by the monitor.
"""
import numpy as np

from . import common, linkcommon
from .common import Result

PROP = "C01"
RULE = ("movies: 1-3 D integer lattices, 2-8 (thorough: up to 25) frames, 0-12 (40) features per "
        "frame, empty/missing frames, duplicate positions, exact-range distances, memory 0-3, "
        "scalar or per-axis search_range, all strategies x 3 entry points; tables: shuffled rows, "
        "odd indexes, payload columns.  Non-trivial = at least one contested sub-net or one "
        "memory re-link (counted by the monitor), or a table with a non-default index; distinct = "
        "distinct canonical input.")
ASSUMPTIONS = [
    "coordinates are integers and search ranges multiples of 1/4, so every squared distance and the "
    "comparison with search_range**2 is exact in float64; the +1e-7 slack of HashKDTree.query is "
    "modelled as an inclusive comparison",
    "numba strategies run interpreted (numba absent); BTree / dist_func / to_eucl are not exercised "
    "(scikit-learn absent)",
    "for the iterator entry points the gap bound is counted in iterator steps; for `link` missing "
    "frames count as elapsed frames (they become empty levels)",
    "'same index' compares index values; pandas_sort's documented renaming of a clashing index "
    "name is not a violation",
]
MIN_NONTRIVIAL = 20
STRATEGIES = ["recursive", "nonrecursive", "numba", "hybrid", "auto", "drop", None]


def init(ctx):
    common.setup_repo_path()


def gen_cases(ctx):
    for inp in ctx.corpus():
        yield inp
    n = ctx.n(360, 3000)
    for i in range(n):
        rng = ctx.rng("movie", i)
        mv = linkcommon.gen_movie(rng, thorough=ctx.thorough, plant_history=(i % 2 == 0))
        mv["stream"] = "movie"
        mv["entry"] = linkcommon.ENTRIES[i % 3]
        mv["strategy"] = STRATEGIES[(i // 3) % len(STRATEGIES)]
        if mv["entry"] == "link" and len(mv["frames"]) > 3 and rng.random() < 0.4:
            k = rng.randrange(1, len(mv["frames"]) - 1)
            mv["missing"] = [k]
            mv["frames"][k] = []
        yield mv
    m = ctx.n(120, 1200)
    for i in range(m):
        rng = ctx.rng("table", i)
        mv = linkcommon.gen_movie(rng, thorough=False)
        mv["stream"] = "table"
        mv["scale_pow"] = 0
        mv["entry"] = "link"
        mv["index_kind"] = rng.choice(["range", "shuffled", "strings", "duplicates", "named_frame",
                                       "named_other"])
        mv["float_frames"] = rng.random() < 0.4
        mv["payload"] = rng.random() < 0.7
        mv["row_seed"] = rng.randrange(10 ** 6)
        yield mv


def run_table_case(ctx, inp):
    import random
    import pandas as pd
    import trackpy as tp
    from trackpy.linking.utils import SubnetOversizeException
    res = Result()
    dim = inp["dim"]
    cols = {1: ["x"], 2: ["y", "x"], 3: ["z", "y", "x"]}[dim]
    rows = []
    for k, pts in enumerate(inp["frames"]):
        for p in pts:
            rows.append(list(map(float, p)) + [inp["t0"] + k])
    if not rows:
        res.stat("empty_table")
        return res
    rr = random.Random(inp["row_seed"])
    rr.shuffle(rows)
    df = pd.DataFrame(rows, columns=cols + ["frame"])
    df["frame"] = df["frame"].astype(float if inp["float_frames"] else int)
    n = len(df)
    if inp["payload"]:
        df["mass"] = [rr.randrange(1000) / 8.0 for _ in range(n)]
        df["tag"] = ["r%d" % i for i in range(n)]
    kind = inp["index_kind"]
    if kind == "shuffled":
        idx = list(range(100, 100 + n)); rr.shuffle(idx); df.index = idx
    elif kind == "strings":
        df.index = ["id%03d" % i for i in rr.sample(range(1000), n)]
    elif kind == "duplicates":
        df.index = [rr.randrange(max(1, n // 2)) for _ in range(n)]
    elif kind == "named_frame":
        df.index = pd.Index(df["frame"].values.copy(), name="frame")
    elif kind == "named_other":
        df.index = pd.Index(range(n), name="feature_id")
    before = df.copy(deep=True)
    kw = dict(memory=inp["memory"])
    if inp.get("default_cols") and dim >= 2:
        df = df[cols[::-1] + [c for c in df.columns if c not in cols]]   # x listed before y
        before = df.copy(deep=True)
    else:
        kw["pos_columns"] = cols
    try:
        out = tp.link(df, linkcommon.search_range_arg(inp), **kw)
    except SubnetOversizeException:
        res.stat("oversize")
        return res
    res.stat("tables")
    res.stat("index_" + kind)
    res.nontrivial = kind != "range" or inp["payload"]
    # ---- purity
    try:
        pd.testing.assert_frame_equal(df, before, check_names=True)
        assert df.index.name == before.index.name
    except AssertionError as e:
        res.violation("property-violation", "caller's table was modified by link: %s" % str(e)[:300],
                      signature=dict(stream="table", what="caller-table-modified"))
    # ---- rows preserved
    msg = None
    if "particle" not in out.columns:
        msg = "no particle column"
    elif len(out) != n:
        msg = "row count changed %d -> %d" % (n, len(out))
    else:
        if not np.issubdtype(out["frame"].dtype, np.integer):
            msg = "frame column is not integer (%s)" % out["frame"].dtype
        fr = out["frame"].values
        if msg is None and np.any(np.diff(fr) < 0):
            msg = "rows are not ordered by frame"
        if msg is None and list(out.columns) != list(df.columns) + ["particle"]:
            msg = "columns changed: %s" % list(out.columns)
        if msg is None:
            def keyrows(d, withidx):
                ks = []
                for ix, (_, r) in zip(d.index, d.iterrows()):
                    ks.append(tuple([str(ix)] + [float(r[c]) for c in cols] + [int(r["frame"])] +
                                    ([float(r["mass"]), r["tag"]] if inp["payload"] else [])))
                return sorted(ks)
            if keyrows(df, True) != keyrows(out, True):
                msg = "rows (index, coordinates, frame, payload) are not the input rows"
        if msg is None and not (np.issubdtype(out["particle"].dtype, np.integer)
                                and (out["particle"].values >= 0).all()):
            msg = "labels are not non-negative integers"
    if msg is not None:
        res.violation("property-violation", msg, impl=out.head(20).to_dict(),
                      signature=dict(stream="table", what=msg.split(":")[0]))
        return res
    # ---- labels valid (monitor)
    fr = out["frame"].values
    levels = []
    for t in range(int(fr.min()), int(fr.max()) + 1):
        sub = out[out["frame"] == t]
        levels.append((t, [[int(round(v)) for v in row] for row in sub[cols].values],
                       [int(i) for i in sub["particle"].values]))
    m = common.kv(ctx.ask(linkcommon.lrun_line(inp, levels)))
    if m.get("verdict") not in ("ok", "capped"):
        omsg = linkcommon.oracle_levels(inp, levels, check_optimal=False)
        reason = str(m.get("reason")).replace("_", " ")
        if omsg is not None:
            res.violation("property-violation", omsg, impl=levels, model=m,
                          signature=dict(stream="table", what=reason))
        elif "minimum-cost" not in reason:
            res.violation("correspondence-break", "monitor rejected table output: " + reason,
                          impl=levels, model=m, broken="Linker.stepCheck",
                          signature=dict(stream="table", what=reason))
    return res


def run_case(ctx, inp):
    if inp.get("stream") == "table":
        return run_table_case(ctx, inp)
    return linkcommon.run_movie_case(ctx, inp, want=("valid",), prop="C01")
