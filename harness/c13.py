"""C13 — link_partial re-links a frame range without corrupting labels elsewhere.

One case = one table (rows, positions on the 1/8 grid, a VALID old labelling: non-negative, unique
per frame, no gaps), a link_range and a search range.  Per case:

  implementation : `trackpy.link_partial` from the tree under test; `reconnect_traj_patch` is wrapped
                   (from here, no source edit) to capture the table it receives: that gives the
                   clamped range and the labels the inner `link_iter` produced.
  oracle         : written from the property statement, independent of the Lean model: union-find
                   closure `Joined` of J1 (equal old label, both rows outside the range), J2 (linked
                   inside the range — taken from an independent `tp.link` of the range's rows), J3
                   (old label crossing the range's first / last frame).  Required of the output:
                   (a) labels unique per frame, (b) equal label => Joined, (c) Joined => equal label
                   when no Joined-class has two rows in one frame, otherwise only for the generating
                   pairs J1-same-side / J2 / J3 ((a) and (c) are jointly unsatisfiable there),
                   (d) same rows (index), same values in every other column, no extra columns.
  model          : `PARTIAL fixed …` (Lean `Partial.linkPartial Rule.fixed`, the subject of the
                   theorems of Props/C13) must give exactly the implementation's labels, the order
                   of the fresh ids being read off the implementation's output (any order is
                   covered by the theorems); `PARTIAL orig …` is evaluated too, to publish how often
                   the two rules differ (= how often a defect of the unrepaired rule is exercised).
"""
import itertools

import numpy as np

from . import common
from .common import Result

PROP = "C13"
RULE = ("tables of 1-6 particles x 3-10 frames on the 1/8 grid (random walks with jumps, births and "
        "deaths, emptied frames); old labels = tp.link with a larger/smaller search range than the "
        "patch or ground-truth identity, then random splits / merges of adjacent tracks and an "
        "injective renaming drawn from small naturals, offsets or scattered ids (so that ids only "
        "present inside the range and ids equal to the fresh-id candidates occur); link_range "
        "positions from 2 before the first to 2 after the last frame incl. single-frame, clamped, "
        "full-cover and disjoint ranges; thorough tier adds the exhaustive family of all 343 valid "
        "old partitions of 2 particles x 4 frames x 3 namings x all ranges x 3 motion patterns.  "
        "Non-trivial = the reconnect branch ran, an old track crosses the first or last frame of the "
        "range, and the partition inside the range differs from the old one; distinct = distinct "
        "canonical input.")
ASSUMPTIONS = [
    "the labels produced by the inner link_iter are an input of the model (they are the subject of "
    "C01/C02); they are cross-checked against an independent tp.link of the range's rows and, when "
    "an equal-cost tie is broken differently, validated directly (unique per frame, every link "
    "between consecutive frames within the search range)",
    "positions are multiples of 1/8 and never decide a branch of reconnect_traj_patch: no float "
    "tolerance is involved in this check",
    "memory=0 inside the patch (the docstring excludes memory for reconnect_traj_patch)",
    "interpretive choice: when a Joined-class contains two rows of one frame, completeness is only "
    "required for the generating pairs J2, J3 and J1 restricted to rows on the same side of the range",
]
MIN_NONTRIVIAL = 20


def init(ctx):
    common.setup_repo_path()


# ------------------------------------------------------------------------------------------------
# generation

def _valid_old(rows):
    """rows: [frame, x8, y8, old]; non-negative, unique per frame, contiguous"""
    frames_of = {}
    seen = set()
    for fr, _, _, old in rows:
        if old < 0 or (fr, old) in seen:
            return False
        seen.add((fr, old))
        frames_of.setdefault(old, []).append(fr)
    for fs in frames_of.values():
        if max(fs) - min(fs) + 1 != len(fs):
            return False
    return True


def _split_gaps(rows_ident):
    """identity labels -> labels without gaps (split a track at every missing frame)"""
    out = {}
    nxt = 0
    by = {}
    for i, (fr, ident) in enumerate(rows_ident):
        by.setdefault(ident, []).append((fr, i))
    for ident, lst in sorted(by.items()):
        lst.sort()
        prev = None
        for fr, i in lst:
            if prev is None or fr != prev + 1:
                cur = nxt
                nxt += 1
            out[i] = cur
            prev = fr
    return [out[i] for i in range(len(rows_ident))]


def _mutate_partition(rng, frames, lab):
    """random splits and merges of adjacent tracks; keeps validity"""
    lab = list(lab)
    nxt = max(lab, default=-1) + 1
    # splits
    for _ in range(rng.choice([0, 0, 1, 2])):
        ids = sorted(set(lab))
        t = rng.choice(ids)
        fs = sorted(frames[i] for i in range(len(lab)) if lab[i] == t)
        if len(fs) < 2:
            continue
        cut = rng.choice(fs[1:])
        for i in range(len(lab)):
            if lab[i] == t and frames[i] >= cut:
                lab[i] = nxt
        nxt += 1
    # swaps: two tracks present at k-1 and k exchange their labels from frame k on (old links cross)
    for _ in range(rng.choice([0, 0, 0, 1, 1, 2])):
        ext = {}
        for i, t in enumerate(lab):
            lo, hi = ext.get(t, (frames[i], frames[i]))
            ext[t] = (min(lo, frames[i]), max(hi, frames[i]))
        cands = [(a, b, k) for a in ext for b in ext if a < b
                 for k in range(max(ext[a][0], ext[b][0]) + 1, min(ext[a][1], ext[b][1]) + 1)]
        if not cands:
            break
        a, b, k = rng.choice(sorted(cands))
        lab = [(b if t == a else a if t == b else t) if frames[i] >= k else t for i, t in enumerate(lab)]
    # merges: a track ending at k with a track starting at k+1
    for _ in range(rng.choice([0, 0, 1, 2, 3])):
        ext = {}
        for i, t in enumerate(lab):
            lo, hi = ext.get(t, (frames[i], frames[i]))
            ext[t] = (min(lo, frames[i]), max(hi, frames[i]))
        pairs = [(a, b) for a in ext for b in ext if a != b and ext[a][1] + 1 == ext[b][0]]
        if not pairs:
            break
        a, b = rng.choice(sorted(pairs))
        lab = [a if t == b else t for t in lab]
    return lab


def _rename(rng, lab):
    ids = sorted(set(lab))
    n = len(ids)
    scheme = rng.choice(["small", "small", "perm", "offset", "scatter", "mixed"])
    if scheme == "small":
        pool = list(range(n))
    elif scheme == "perm":
        pool = list(range(n))
        rng.shuffle(pool)
    elif scheme == "offset":
        off = rng.choice([1, 2, 3, 10])
        pool = [off + i for i in range(n)]
        rng.shuffle(pool)
    elif scheme == "scatter":
        pool = rng.sample(range(0, 3 * n + 4), n)
    else:
        pool = rng.sample(range(0, n + 2), n)
    m = dict(zip(ids, pool))
    return [m[t] for t in lab], scheme


def gen_table(rng, thorough=False):
    nfr = rng.choice([3, 4, 5, 6, 6, 7, 7, 8, 8, 9, 10])
    npart = rng.randint(1, 6)
    f0 = rng.choice([0, 0, 0, 1, 5, -2])
    rows = []      # frame, x8, y8
    ident = []
    spread = rng.choice([16, 32, 64])
    jumpy = rng.random() < 0.6
    for p in range(npart):
        b = rng.randint(0, max(0, nfr - 2)) if rng.random() < 0.4 else 0
        d = rng.randint(b, nfr - 1) if rng.random() < 0.4 else nfr - 1
        x = rng.randint(0, spread)
        y = rng.choice([0, 0, 4, 8])
        for k in range(b, d + 1):
            rows.append([f0 + k, x, y])
            ident.append(p)
            step = rng.randint(-6, 6)
            if jumpy and rng.random() < 0.25:
                step = rng.choice([-1, 1]) * rng.randint(20, 48)
            x += step
    # emptied frames
    if rng.random() < 0.3:
        for _ in range(rng.choice([1, 1, 2])):
            fr = f0 + rng.randint(0, nfr - 1)
            keep = [i for i in range(len(rows)) if rows[i][0] != fr]
            if len(keep) >= 2:
                rows = [rows[i] for i in keep]
                ident = [ident[i] for i in keep]
    # two rows of one frame must not coincide (the linker would see identical points)
    seen = set()
    keep = []
    for i, r in enumerate(rows):
        if tuple(r) not in seen:
            seen.add(tuple(r))
            keep.append(i)
    rows = [rows[i] for i in keep]
    ident = [ident[i] for i in keep]
    order = list(range(len(rows)))
    if rng.random() < 0.5:
        rng.shuffle(order)
    rows = [rows[i] for i in order]
    ident = [ident[i] for i in order]
    frames = [r[0] for r in rows]
    sr8 = rng.choice([8, 12, 16, 24, 40])
    old_mode = rng.choice(["link_larger", "link_smaller", "link_same", "identity"])
    if old_mode == "identity":
        lab = _split_gaps(list(zip(frames, ident)))
    else:
        import pandas as pd
        import trackpy as tp
        osr = {"link_larger": sr8 * rng.choice([2, 3, 6]), "link_smaller": max(2, sr8 // rng.choice([2, 4])),
               "link_same": sr8}[old_mode]
        df = pd.DataFrame(dict(frame=frames, x=[r[1] / 8.0 for r in rows], y=[r[2] / 8.0 for r in rows]))
        try:
            out = tp.link(df, search_range=osr / 8.0)
            lab = [int(out.loc[i, "particle"]) for i in range(len(rows))]
        except Exception:
            lab = _split_gaps(list(zip(frames, ident)))
            old_mode = "identity"
    lab = _mutate_partition(rng, frames, lab)
    lab, scheme = _rename(rng, lab)
    lo, hi = min(frames), max(frames)
    kind = rng.choice(["inner"] * 10 + ["single"] * 2 + ["touch_lo"] * 3 + ["touch_hi"] * 3 +
                      ["exceed_lo", "exceed_hi", "cover", "outside"])
    if kind == "inner" and hi - lo >= 2:
        a = rng.randint(lo + 1, hi - 1)
        b = rng.randint(a + 1, hi)
        if b == a + 1 and b < hi and rng.random() < 0.7:
            b += 1
    elif kind == "single":
        a = rng.randint(lo, hi)
        b = a + 1
    elif kind == "touch_lo":
        a = lo
        b = rng.randint(lo + 1, hi) if hi > lo else lo + 1
    elif kind == "touch_hi":
        a = rng.randint(lo, hi)
        b = hi + 1
    elif kind == "exceed_lo":
        a = lo - rng.randint(1, 2)
        b = rng.randint(lo + 1, hi) if hi > lo else lo + 1
    elif kind == "exceed_hi":
        a = rng.randint(lo, hi)
        b = hi + 1 + rng.randint(1, 2)
    elif kind == "cover":
        a = lo - rng.randint(0, 1)
        b = hi + 1 + rng.randint(0, 1)
    elif kind == "outside":
        a = hi + rng.randint(1, 3) if rng.random() < 0.5 else lo - rng.randint(2, 4)
        b = a + rng.randint(1, 2)
    else:
        a, b = lo, hi + 1
        kind = "cover"
    idx = rng.choice(["default", "default", "perm", "offset", "sparse"])
    n = len(rows)
    if idx == "default":
        index = None
    elif idx == "perm":
        index = list(range(n))
        rng.shuffle(index)
    elif idx == "offset":
        index = [100 + i for i in range(n)]
    else:
        index = sorted(rng.sample(range(0, 5 * n + 5), n), reverse=rng.random() < 0.5)
    return dict(stream="table", rows=[r + [l] for r, l in zip(rows, lab)], sr8=sr8, range=[a, b],
                index=index, meta=dict(old_mode=old_mode, naming=scheme, range_kind=kind))


def gen_exhaustive():
    """all valid old partitions of 2 particles x 4 frames (7 link patterns per transition = 343),
    3 namings, every range inside / exceeding, 3 motion patterns"""
    patterns = {
        "static": ([0, 0, 0, 0], [16, 16, 16, 16]),        # patch links straight
        "swap": ([0, 0, 16, 16], [16, 16, 0, 0]),          # particles exchange places between f1 and f2
        "jump": ([0, 0, 40, 40], [16, 16, 16, 16]),        # particle 0 jumps out of range: patch breaks it
    }
    trans = [(), ((0, 0),), ((1, 1),), ((0, 0), (1, 1)), ((0, 1),), ((1, 0),), ((0, 1), (1, 0))]
    ranges = [(a, b) for a in range(0, 4) for b in range(a + 1, 5)] + [(-1, 2), (2, 6), (-1, 5)]
    for combo in itertools.product(range(7), repeat=3):
        # build partition
        lab = {}
        nxt = 0
        for p in (0, 1):
            lab[(0, p)] = nxt
            nxt += 1
        for t, c in enumerate(combo):
            linked = {}
            for s, d in trans[c]:
                linked[d] = lab[(t, s)]
            for p in (0, 1):
                if p in linked:
                    lab[(t + 1, p)] = linked[p]
                else:
                    lab[(t + 1, p)] = nxt
                    nxt += 1
        ids = sorted(set(lab.values()))
        namings = [dict((t, t) for t in ids), dict((t, len(ids) - 1 - t) for t in ids),
                   dict((t, 2 * t + 1) for t in ids)]
        for ni, nm in enumerate(namings):
            for pname, (x0, x1) in patterns.items():
                for (a, b) in ranges:
                    rows = []
                    for t in range(4):
                        rows.append([t, x0[t], 0, nm[lab[(t, 0)]]])
                        rows.append([t, x1[t], 0, nm[lab[(t, 1)]]])
                    yield dict(stream="table", rows=rows, sr8=8, range=[a, b], index=None, family="exh2x4",
                               meta=dict(old_mode="exhaustive", naming="n%d" % ni, range_kind=pname))


def gen_cases(ctx):
    common.setup_repo_path()          # the generator links tables with tp.link (old labels)
    for inp in ctx.corpus():
        yield inp
    if ctx.thorough:
        for inp in gen_exhaustive():
            yield inp
    n = ctx.n(1600, 24000)
    for i in range(n):
        rng = ctx.rng("table", i)
        yield gen_table(rng, ctx.thorough)


# ------------------------------------------------------------------------------------------------
# the oracle (from the property statement)

class UF:
    def __init__(self, n):
        self.p = list(range(n))

    def find(self, a):
        while self.p[a] != a:
            self.p[a] = self.p[self.p[a]]
            a = self.p[a]
        return a

    def union(self, a, b):
        a, b = self.find(a), self.find(b)
        if a != b:
            self.p[b] = a


def joined_pairs(frames, old, inlab, a, b):
    """generating pairs of Joined, tagged.  inlab[i] = in-range track of row i (None outside)."""
    n = len(frames)
    pairs = []
    inside = [a <= frames[i] < b for i in range(n)]
    by_old_before, by_old_after, by_new = {}, {}, {}
    for i in range(n):
        if inside[i]:
            by_new.setdefault(inlab[i], []).append(i)
        elif frames[i] < a:
            by_old_before.setdefault(old[i], []).append(i)
        else:
            by_old_after.setdefault(old[i], []).append(i)
    for grp in by_old_before.values():
        pairs += [("J1s", grp[0], j) for j in grp[1:]]
    for grp in by_old_after.values():
        pairs += [("J1s", grp[0], j) for j in grp[1:]]
    for m in by_old_before:
        if m in by_old_after:
            pairs.append(("J1x", by_old_before[m][0], by_old_after[m][0]))
    for grp in by_new.values():
        pairs += [("J2", grp[0], j) for j in grp[1:]]
    for i in range(n):
        if inside[i] and frames[i] == a and old[i] in by_old_before:
            pairs += [("J3", i, j) for j in by_old_before[old[i]]]
        if inside[i] and frames[i] == b - 1 and old[i] in by_old_after:
            pairs += [("J3", i, j) for j in by_old_after[old[i]]]
    return pairs


def oracle(frames, old, inlab, a, b, final):
    """returns (list of (check, message, offending label), conflict flag)"""
    n = len(frames)
    bad = []
    # (a) unique per frame
    seen = {}
    for i in range(n):
        k = (frames[i], final[i])
        if k in seen:
            bad.append(("unique", "label %s twice in frame %s (rows %d,%d)" % (final[i], frames[i], seen[k], i),
                        final[i]))
        seen[k] = i
    pairs = joined_pairs(frames, old, inlab, a, b)
    uf = UF(n)
    for _, i, j in pairs:
        uf.union(i, j)
    cls = [uf.find(i) for i in range(n)]
    # conflict: a Joined class with two rows in one frame
    conflict = len({(cls[i], frames[i]) for i in range(n)}) < n
    # (b) soundness
    first = {}
    for i in range(n):
        l = final[i]
        if l in first:
            if cls[first[l]] != cls[i]:
                bad.append(("sound", "rows %d and %d share label %s but are not Joined" % (first[l], i, l), l))
        else:
            first[l] = i
    # (c) completeness
    if not conflict:
        rep = {}
        for i in range(n):
            c = cls[i]
            if c in rep:
                if final[rep[c]] != final[i]:
                    bad.append(("complete", "rows %d and %d are Joined but labelled %s / %s"
                                % (rep[c], i, final[rep[c]], final[i]), final[i]))
            else:
                rep[c] = i
    else:
        for tag, i, j in pairs:
            if tag != "J1x" and final[i] != final[j]:
                bad.append(("complete", "rows %d and %d are %s-joined but labelled %s / %s"
                            % (i, j, tag, final[i], final[j]), final[i]))
    return bad, conflict


# ------------------------------------------------------------------------------------------------
# classification of a violation (narrow signatures)

def classify(check, label, cap_rows, start, stop, final_by_new, behaves_as_original):
    """cap_rows: (frame, old, new) as seen by reconnect_traj_patch.  The two signatures of the known
    defects of the unrepaired rule are only given when the output is exactly that of the model of the
    unrepaired rule (Rule.orig) and differs from the repaired one."""
    if cap_rows is None or not behaves_as_original:
        return dict(what="other", check=check)
    claimed = {}
    for fr, o, nw in cap_rows:
        if fr == start and o >= 0:
            claimed[o] = nw
    start_tracks = set(claimed.values())
    # D1: a track not present at the first frame ends at stop-1 with an old id claimed at the first frame
    d1 = {o for fr, o, nw in cap_rows if fr == stop - 1 and o >= 0 and nw not in start_tracks and o in claimed
          and claimed[o] != nw}
    if label in d1:
        return dict(what="patch-born-track-reuses-claimed-old-id", check=check)
    outside = {o for fr, o, nw in cap_rows if not (start <= fr < stop)}
    edge_old = {o for fr, o, nw in cap_rows if fr in (start, stop - 1) and o >= 0}
    edge_tracks = {nw for fr, o, nw in cap_rows if fr in (start, stop - 1) and o >= 0}
    inner_tracks = {nw for fr, o, nw in cap_rows if start <= fr < stop} - edge_tracks
    if (label in edge_old and label not in outside and label >= 0
            and any(final_by_new.get(t) == label for t in inner_tracks)):
        return dict(what="fresh-id-collides-with-reconnected-old-id", check=check)
    return dict(what="other", check=check)


# ------------------------------------------------------------------------------------------------
# one case

def build_df(inp):
    import pandas as pd
    rows = inp["rows"]
    n = len(rows)
    df = pd.DataFrame(dict(x=[r[1] / 8.0 for r in rows], y=[r[2] / 8.0 for r in rows],
                           frame=[int(r[0]) for r in rows], particle=[int(r[3]) for r in rows],
                           val=[1000 + 7 * i for i in range(n)]))
    if inp.get("index") is not None:
        df.index = list(inp["index"])
    return df


def run_impl(df, sr, rng_ab):
    """-> (out DataFrame or None, exception or None, capture or None)"""
    import trackpy as tp
    from trackpy.linking import partial as P
    cap = {}
    orig = P.reconnect_traj_patch

    def wrapped(f, link_range, old_particle_column, t_column="frame"):
        cap["range"] = (int(link_range[0]), int(link_range[1]))
        cap["rows"] = [(int(a), int(b), int(c)) for a, b, c in
                       f[[t_column, old_particle_column, "particle"]].values]
        cap["index"] = list(f.index)
        return orig(f, link_range, old_particle_column, t_column)

    P.reconnect_traj_patch = wrapped
    try:
        out = tp.link_partial(df, search_range=sr, link_range=tuple(rng_ab))
        return out, None, (cap if cap else None)
    except Exception as e:  # judged by the caller
        return None, e, (cap if cap else None)
    finally:
        P.reconnect_traj_patch = orig


def independent_inlab(df, sr, a, b):
    """J2 from an independent tp.link of the range's rows: index value -> track"""
    import trackpy as tp
    sub = df[(df["frame"] >= a) & (df["frame"] < b)].drop(columns=["particle"])
    if len(sub) == 0:
        return {}
    out = tp.link(sub, search_range=sr)
    return {ix: int(p) for ix, p in zip(out.index, out["particle"].values)}


def same_partition(d1, d2):
    if set(d1) != set(d2):
        return False
    f, g = {}, {}
    for k in d1:
        if f.setdefault(d1[k], d2[k]) != d2[k] or g.setdefault(d2[k], d1[k]) != d1[k]:
            return False
    return True


def links_valid(df, lab, sr):
    """lab: index -> in-range track; unique per frame, consecutive frames, steps within sr"""
    by = {}
    for ix, t in lab.items():
        by.setdefault(t, []).append((int(df.loc[ix, "frame"]), float(df.loc[ix, "x"]), float(df.loc[ix, "y"])))
    for t, lst in by.items():
        lst.sort()
        for (f1, x1, y1), (f2, x2, y2) in zip(lst, lst[1:]):
            if f2 != f1 + 1:
                return False
            if (x2 - x1) ** 2 + (y2 - y1) ** 2 > sr * sr * (1 + 1e-9):
                return False
    return True


def run_case(ctx, inp):
    res = Result()
    rows = inp["rows"]
    a, b = inp["range"]
    sr = inp["sr8"] / 8.0
    meta = inp.get("meta", {})
    if not _valid_old(rows):
        res.violation("harness-error", "generator produced an invalid old labelling: %r" % (rows,))
        return res
    df = build_df(inp)
    frames_all = sorted(set(int(r[0]) for r in rows))
    lo, hi = frames_all[0], frames_all[-1]
    in_frames = [f for f in range(max(a, lo), min(b, hi + 1))]
    overlaps = len(in_frames) > 0
    empty_in_range = [f for f in in_frames if f not in set(frames_all)]
    res.stat("cases")
    res.stat("old_" + str(meta.get("old_mode", "corpus")))
    res.stat("naming_" + str(meta.get("naming", "corpus")))
    res.stat("rows_%s" % ("1-4" if len(rows) <= 4 else "5-12" if len(rows) <= 12 else "13-30" if len(rows) <= 30 else "31+"))
    if inp.get("family"):
        res.stat("exhaustive_family")
    if empty_in_range:
        res.stat("empty_frame_in_range")
    if not overlaps:
        res.stat("range_disjoint_from_data")
    if b == a + 1:
        res.stat("single_frame_range")
    if a < lo or b > hi + 1:
        res.stat("range_exceeds_data")
    if inp.get("index") is not None:
        res.stat("nondefault_index")

    before = df.copy()
    out, exc, cap = run_impl(df, sr, (a, b))
    # the caller's table must not be modified
    if not before.equals(df):
        res.violation("property-violation", "link_partial modified the caller's table",
                      signature=dict(what="input-mutated"))

    order_hint = []
    model_rows = None
    if exc is not None:
        res.stat("impl_raised")
        if not overlaps:
            sig = dict(what="range-outside-data-raises", error=type(exc).__name__)
        elif empty_in_range:
            sig = dict(what="empty-frame-in-range-raises", error=type(exc).__name__)
        else:
            sig = dict(what="unexpected-exception", error=type(exc).__name__)
        res.violation("property-violation",
                      "link_partial raised %s: %s (range %s, frames %d..%d, empty frames in range %s)"
                      % (type(exc).__name__, str(exc)[:120], (a, b), lo, hi, empty_in_range),
                      impl="raise:" + type(exc).__name__, broken=sig["what"], signature=sig)
        # model of the repaired code on the same input (labels of an independent link as in-range labels)
        return res

    # ---- (d) rows and values preserved ---------------------------------------------------------
    cols_in = list(before.columns)
    ok_rows = sorted(map(int, out.index)) == sorted(map(int, before.index)) and len(out) == len(before)
    if not ok_rows:
        res.violation("property-violation", "rows not preserved: index %s -> %s"
                      % (list(before.index), list(out.index)), signature=dict(what="other", check="preserve"))
        return res
    if sorted(out.columns) != sorted(cols_in):
        res.violation("property-violation", "columns changed: %s -> %s" % (cols_in, list(out.columns)),
                      signature=dict(what="other", check="preserve"))
        return res
    for c in cols_in:
        if c == "particle":
            continue
        if not (out[c].reindex(before.index).values == before[c].values).all():
            res.violation("property-violation", "values of column %r changed" % c,
                          signature=dict(what="other", check="preserve"))
            return res

    # canonical row order for the oracle: the input order
    ix_list = list(before.index)
    pos = {ix: i for i, ix in enumerate(ix_list)}
    frames = [int(v) for v in before["frame"].values]
    old = [int(v) for v in before["particle"].values]
    final = [int(out.loc[ix, "particle"]) for ix in ix_list]

    # ---- in-range labels: captured vs independent ------------------------------------------------
    indep = independent_inlab(before, sr, a, b) if overlaps else {}
    if cap is not None:
        start, stop = cap["range"]
        captured = {ix: nw for ix, (fr, o, nw) in zip(cap["index"], cap["rows"]) if start <= fr < stop}
        res.stat("mode_reconnect")
    else:
        start, stop = max(a, lo), min(b, hi + 1)
        captured = {ix: int(out.loc[ix, "particle"]) for ix in ix_list if a <= frames[pos[ix]] < b}
        res.stat("mode_full" if overlaps else "mode_norange")
    inlab_src = indep
    inner_mismatch = False
    if not same_partition(indep, captured):
        if set(indep) == set(captured) and links_valid(before, captured, sr) and \
                len({(frames[pos[ix]], t) for ix, t in captured.items()}) == len(captured):
            res.stat("inner_link_tie_broken_differently")
            inlab_src = captured
        else:
            # the implementation re-linked something else than the rows of [a, b): judge its output
            # against the statement (J2 from the independent link); reported below
            inner_mismatch = True
    inlab = [inlab_src.get(ix) for ix in ix_list]

    # ---- oracle -----------------------------------------------------------------------------------
    bad, conflict = oracle(frames, old, inlab, a, b, final)
    res.stat("joined_conflict" if conflict else "joined_no_conflict")
    if inner_mismatch and not bad:
        res.violation("correspondence-break",
                      "labels inside the range are not a linking of the range's rows",
                      impl=captured, model=indep, broken="in-range labels = link of the range",
                      signature=dict(what="inner-link"))
        return res

    # ---- model ------------------------------------------------------------------------------------
    if cap is not None:
        mrows = cap["rows"]
        mix = cap["index"]
    else:
        mix = list(out.index)
        mrows = [(int(out.loc[ix, "frame"]), old[pos[ix]],
                  int(out.loc[ix, "particle"]) if a <= frames[pos[ix]] < b else old[pos[ix]]) for ix in mix]
    impl_labels = [int(out.loc[ix, "particle"]) for ix in mix]
    # order hint: in-range tracks sorted by the label the implementation gave them
    fin = {}
    for (fr, o, nw), l in zip(mrows, impl_labels):
        if start <= fr < stop:
            fin[nw] = l
    order_hint = [t for t, _ in sorted(fin.items(), key=lambda kv: kv[1])]
    body = " | ".join([",".join(map(str, order_hint)),
                       ";".join("%d,%d,%d" % r for r in mrows)])
    mf = common.kv(ctx.ask("PARTIAL fixed %d %d | %s" % (a, b, body)))
    mo = common.kv(ctx.ask("PARTIAL orig %d %d | %s" % (a, b, body)))

    def labels_of(m):
        if "labels" not in m:
            return None
        return [int(t) for t in m["labels"].split(",")] if m["labels"] is not True and m["labels"] != "" else []

    lf, lo_ = labels_of(mf), labels_of(mo)
    final_by_new = {}
    if cap is not None:
        for ix, (fr, o, nw) in zip(cap["index"], cap["rows"]):
            if start <= fr < stop:
                final_by_new[nw] = int(out.loc[ix, "particle"])
    seen_sig = set()
    for check, msg, label in bad:
        sig = classify(check, label, cap["rows"] if cap else None, start, stop, final_by_new,
                       behaves_as_original=(lo_ == impl_labels and lf != impl_labels))
        key = common.canon(sig)
        if key in seen_sig:
            continue
        seen_sig.add(key)
        res.violation("property-violation", "%s: %s; range %s search_range %s" % (check, msg, (a, b), sr),
                      impl=dict(final=final), broken=sig["what"], signature=sig)

    if mf.get("validold") == "0" or mf.get("validnew") == "0":
        res.violation("harness-error", "driver judges the input invalid: %r" % mf)
        return res
    if lf != lo_:
        res.stat("orig_rule_differs_from_fixed")
    if lf == impl_labels:
        res.stat("impl_equals_fixed_model")
    if lo_ == impl_labels:
        res.stat("impl_equals_orig_model")
    if lf != impl_labels and not bad:
        res.violation("correspondence-break", "implementation labels differ from the model (Rule.fixed)",
                      impl=impl_labels, model=mf, broken="Partial.linkPartial Rule.fixed",
                      signature=dict(what="model-differs", equals_orig=(lo_ == impl_labels)))
    if mf.get("mode") == "reconnect":
        if mf.get("nrem", "0") != "0":
            res.stat("fresh_ids_assigned")
        if mf.get("npend", "0") != "0":
            res.stat("guard_fired")
        if mf.get("contignew") == "0":
            res.stat("inrange_tracks_with_gaps")

    # ---- non-triviality -----------------------------------------------------------------------------
    crossing = any((frames[i] == a and any(old[j] == old[i] and frames[j] < a for j in range(len(rows)))) or
                   (frames[i] == b - 1 and any(old[j] == old[i] and frames[j] >= b for j in range(len(rows))))
                   for i in range(len(rows)))
    in_idx = [i for i in range(len(rows)) if a <= frames[i] < b]
    changed = not same_partition({i: old[i] for i in in_idx}, {i: inlab[i] for i in in_idx})
    if crossing:
        res.stat("old_track_crosses_range_edge")
    if changed:
        res.stat("patch_changes_partition")
    res.nontrivial = bool(cap is not None and crossing and changed)
    if res.nontrivial and not res.viol and (conflict or mf.get("npend", "0") != "0"):
        res.sample = dict(input=dict(rows=rows, range=[a, b], sr8=inp["sr8"]), final=final,
                          model=mf.get("labels"), conflict=conflict)
    return res
