"""C13 — link_partial re-links a frame range without corrupting labels elsewhere.

One case = one table (rows, positions on the 1/8 grid, a VALID old labelling: non-negative, unique
per frame, no gaps), a link_range and a search range; in the `opts` stream additionally one choice
for every option of link_partial's signature and for the layout of the table (`inp["opts"]`, see
`spec_of` / `gen_opts`: column names, dtypes, label magnitude, index, linker kwargs).  Labels are
exact Python ints throughout (never floats).  Per case:

  implementation : `trackpy.link_partial` from the tree under test; `reconnect_traj_patch` is wrapped
                   (from here, no source edit) to capture the table it receives: that gives the
                   clamped range and the labels the inner `link_iter` produced.
  oracle         : written from the property statement, independent of the Lean model: union-find
                   closure `Joined` of J1 (equal old label, both rows outside the range), J2 (linked
                   inside the range — taken from an independent `tp.link` of the range's rows), J3
                   (old label crossing the range's first / last frame).  Required of the output:
                   (a) labels unique per frame, (b) equal label => Joined, (c) Joined => equal label
                   when no Joined-class has two rows in one frame, otherwise only for the generating
                   pairs J1-same-side / J2 / J3 ((a) and (c) are jointly unsatisfiable there),
                   (d) same rows (index), same values in every other column, no extra columns.
  model          : `PARTIAL fixed …` (Lean `Partial.linkPartial Rule.fixed`, the subject of the
                   theorems of Props/C13) must give exactly the implementation's labels, the order
                   of the fresh ids being read off the implementation's output (any order is
                   covered by the theorems); `PARTIAL orig …` is evaluated too, to publish how often
                   the two rules differ (= how often a defect of the unrepaired rule is exercised).
"""
import itertools

import numpy as np

from . import common
from .common import Result

PROP = "C13"
RULE = ("tables of 1-6 particles x 3-10 frames on the 1/8 grid (random walks with jumps, births and "
        "deaths, emptied frames); old labels = tp.link with a larger/smaller search range than the "
        "patch or ground-truth identity, then random splits / merges of adjacent tracks and an "
        "injective renaming drawn from small naturals, offsets or scattered ids (so that ids only "
        "present inside the range and ids equal to the fresh-id candidates occur); link_range "
        "positions from 2 before the first to 2 after the last frame incl. single-frame, clamped, "
        "full-cover and disjoint ranges; thorough tier adds the exhaustive family of all 343 valid "
        "old partitions of 2 particles x 4 frames x 3 namings x all ranges x 3 motion patterns.  "
        "Stream `opts` = such a table with every option of link_partial's signature and every layout "
        "of the table drawn independently: t_column default / passed / another name, with or without an "
        "unrelated column carrying the other name; pos_columns guessed / explicit in either order / "
        "tuple / custom names with or without unrelated x,y columns / 1-D / 3-D / passive z; "
        "search_range float / int / numpy / tuple / list / per-axis; link_range tuple / list / numpy; "
        "linker kwargs (memory=0, link_strategy, neighbor_strategy, adaptive_*, predictor=None); old "
        "labels renamed injectively to start above 0, straddle 2**31, 2**53 (consecutive, odd), carry a "
        "2**60 prefix, sit at the top of int64 or beyond (uint64), or mix small and huge ones, held in "
        "int64 / uint64 / object / Int64 / (below 2**53) float64 columns; frame numbers shifted to "
        "negative or beyond 2**31 and held in (u)int8..64; extra columns named like trackpy's internal "
        "ones; str / float / negative / duplicated / Multi index, named or not.  "
        "Non-trivial = the reconnect branch ran, an old track crosses the first or last frame of the "
        "range, and the partition inside the range differs from the old one; distinct = distinct "
        "canonical input.")
ASSUMPTIONS = [
    "the labels produced by the inner link_iter are an input of the model (they are the subject of "
    "C01/C02); they are cross-checked against an independent tp.link of the range's rows and, when "
    "an equal-cost tie is broken differently, validated directly (unique per frame, every link "
    "between consecutive frames within the search range)",
    "positions are multiples of 1/8 and never decide a branch of reconnect_traj_patch: no float "
    "tolerance is involved in this check",
    "memory=0 inside the patch (the docstring excludes memory for reconnect_traj_patch)",
    "labels are exact Python ints everywhere in the harness (read column by column with tolist(); a "
    "float-typed label is accepted only when integral) and arbitrary-size Int in the driver protocol",
    "rows are identified by a passive unique column, so that duplicated index values can be generated; "
    "the index VALUES of every row must be preserved, the index NAME is not judged (pandas_sort renames "
    "an index called like the t_column)",
    "J2 comes from tp.link on a table rebuilt from the case with canonical column names and a default "
    "index, with the same per-axis search range and linker kwargs; with link_strategy='drop' no "
    "tie-breaking alternative is accepted",
    "inputs on which the unchanged tree fails are not generated and listed above gen_opts (open-ended "
    "link_range, float t_column, narrow-int particle column, user column `_old_particle`, index named "
    "`particle`, negative old labels, memory > 0)",
    "interpretive choice: when a Joined-class contains two rows of one frame, completeness is only "
    "required for the generating pairs J2, J3 and J1 restricted to rows on the same side of the range",
]
MIN_NONTRIVIAL = 20


def init(ctx):
    common.setup_repo_path()


# ------------------------------------------------------------------------------------------------
# generation

def _valid_old(rows):
    """rows: [frame, x8, y8, old]; non-negative, unique per frame, contiguous"""
    frames_of = {}
    seen = set()
    for fr, _, _, old in rows:
        if old < 0 or (fr, old) in seen:
            return False
        seen.add((fr, old))
        frames_of.setdefault(old, []).append(fr)
    for fs in frames_of.values():
        if max(fs) - min(fs) + 1 != len(fs):
            return False
    return True


def _split_gaps(rows_ident):
    """identity labels -> labels without gaps (split a track at every missing frame)"""
    out = {}
    nxt = 0
    by = {}
    for i, (fr, ident) in enumerate(rows_ident):
        by.setdefault(ident, []).append((fr, i))
    for ident, lst in sorted(by.items()):
        lst.sort()
        prev = None
        for fr, i in lst:
            if prev is None or fr != prev + 1:
                cur = nxt
                nxt += 1
            out[i] = cur
            prev = fr
    return [out[i] for i in range(len(rows_ident))]


def _mutate_partition(rng, frames, lab):
    """random splits and merges of adjacent tracks; keeps validity"""
    lab = list(lab)
    nxt = max(lab, default=-1) + 1
    # splits
    for _ in range(rng.choice([0, 0, 1, 2])):
        ids = sorted(set(lab))
        t = rng.choice(ids)
        fs = sorted(frames[i] for i in range(len(lab)) if lab[i] == t)
        if len(fs) < 2:
            continue
        cut = rng.choice(fs[1:])
        for i in range(len(lab)):
            if lab[i] == t and frames[i] >= cut:
                lab[i] = nxt
        nxt += 1
    # swaps: two tracks present at k-1 and k exchange their labels from frame k on (old links cross)
    for _ in range(rng.choice([0, 0, 0, 1, 1, 2])):
        ext = {}
        for i, t in enumerate(lab):
            lo, hi = ext.get(t, (frames[i], frames[i]))
            ext[t] = (min(lo, frames[i]), max(hi, frames[i]))
        cands = [(a, b, k) for a in ext for b in ext if a < b
                 for k in range(max(ext[a][0], ext[b][0]) + 1, min(ext[a][1], ext[b][1]) + 1)]
        if not cands:
            break
        a, b, k = rng.choice(sorted(cands))
        lab = [(b if t == a else a if t == b else t) if frames[i] >= k else t for i, t in enumerate(lab)]
    # merges: a track ending at k with a track starting at k+1
    for _ in range(rng.choice([0, 0, 1, 2, 3])):
        ext = {}
        for i, t in enumerate(lab):
            lo, hi = ext.get(t, (frames[i], frames[i]))
            ext[t] = (min(lo, frames[i]), max(hi, frames[i]))
        pairs = [(a, b) for a in ext for b in ext if a != b and ext[a][1] + 1 == ext[b][0]]
        if not pairs:
            break
        a, b = rng.choice(sorted(pairs))
        lab = [a if t == b else t for t in lab]
    return lab


def _rename(rng, lab):
    ids = sorted(set(lab))
    n = len(ids)
    scheme = rng.choice(["small", "small", "perm", "offset", "scatter", "mixed"])
    if scheme == "small":
        pool = list(range(n))
    elif scheme == "perm":
        pool = list(range(n))
        rng.shuffle(pool)
    elif scheme == "offset":
        off = rng.choice([1, 2, 3, 10])
        pool = [off + i for i in range(n)]
        rng.shuffle(pool)
    elif scheme == "scatter":
        pool = rng.sample(range(0, 3 * n + 4), n)
    else:
        pool = rng.sample(range(0, n + 2), n)
    m = dict(zip(ids, pool))
    return [m[t] for t in lab], scheme


def gen_table(rng, thorough=False):
    nfr = rng.choice([3, 4, 5, 6, 6, 7, 7, 8, 8, 9, 10])
    npart = rng.randint(1, 6)
    f0 = rng.choice([0, 0, 0, 1, 5, -2])
    rows = []      # frame, x8, y8
    ident = []
    spread = rng.choice([16, 32, 64])
    jumpy = rng.random() < 0.6
    for p in range(npart):
        b = rng.randint(0, max(0, nfr - 2)) if rng.random() < 0.4 else 0
        d = rng.randint(b, nfr - 1) if rng.random() < 0.4 else nfr - 1
        x = rng.randint(0, spread)
        y = rng.choice([0, 0, 4, 8])
        for k in range(b, d + 1):
            rows.append([f0 + k, x, y])
            ident.append(p)
            step = rng.randint(-6, 6)
            if jumpy and rng.random() < 0.25:
                step = rng.choice([-1, 1]) * rng.randint(20, 48)
            x += step
    # emptied frames
    if rng.random() < 0.3:
        for _ in range(rng.choice([1, 1, 2])):
            fr = f0 + rng.randint(0, nfr - 1)
            keep = [i for i in range(len(rows)) if rows[i][0] != fr]
            if len(keep) >= 2:
                rows = [rows[i] for i in keep]
                ident = [ident[i] for i in keep]
    # two rows of one frame must not coincide (the linker would see identical points)
    seen = set()
    keep = []
    for i, r in enumerate(rows):
        if tuple(r) not in seen:
            seen.add(tuple(r))
            keep.append(i)
    rows = [rows[i] for i in keep]
    ident = [ident[i] for i in keep]
    order = list(range(len(rows)))
    if rng.random() < 0.5:
        rng.shuffle(order)
    rows = [rows[i] for i in order]
    ident = [ident[i] for i in order]
    frames = [r[0] for r in rows]
    sr8 = rng.choice([8, 12, 16, 24, 40])
    old_mode = rng.choice(["link_larger", "link_smaller", "link_same", "identity"])
    if old_mode == "identity":
        lab = _split_gaps(list(zip(frames, ident)))
    else:
        import pandas as pd
        import trackpy as tp
        osr = {"link_larger": sr8 * rng.choice([2, 3, 6]), "link_smaller": max(2, sr8 // rng.choice([2, 4])),
               "link_same": sr8}[old_mode]
        df = pd.DataFrame(dict(frame=frames, x=[r[1] / 8.0 for r in rows], y=[r[2] / 8.0 for r in rows]))
        try:
            out = tp.link(df, search_range=osr / 8.0)
            lab = [int(out.loc[i, "particle"]) for i in range(len(rows))]
        except Exception:
            lab = _split_gaps(list(zip(frames, ident)))
            old_mode = "identity"
    lab = _mutate_partition(rng, frames, lab)
    lab, scheme = _rename(rng, lab)
    lo, hi = min(frames), max(frames)
    kind = rng.choice(["inner"] * 10 + ["single"] * 2 + ["touch_lo"] * 3 + ["touch_hi"] * 3 +
                      ["exceed_lo", "exceed_hi", "cover", "outside"])
    if kind == "inner" and hi - lo >= 2:
        a = rng.randint(lo + 1, hi - 1)
        b = rng.randint(a + 1, hi)
        if b == a + 1 and b < hi and rng.random() < 0.7:
            b += 1
    elif kind == "single":
        a = rng.randint(lo, hi)
        b = a + 1
    elif kind == "touch_lo":
        a = lo
        b = rng.randint(lo + 1, hi) if hi > lo else lo + 1
    elif kind == "touch_hi":
        a = rng.randint(lo, hi)
        b = hi + 1
    elif kind == "exceed_lo":
        a = lo - rng.randint(1, 2)
        b = rng.randint(lo + 1, hi) if hi > lo else lo + 1
    elif kind == "exceed_hi":
        a = rng.randint(lo, hi)
        b = hi + 1 + rng.randint(1, 2)
    elif kind == "cover":
        a = lo - rng.randint(0, 1)
        b = hi + 1 + rng.randint(0, 1)
    elif kind == "outside":
        a = hi + rng.randint(1, 3) if rng.random() < 0.5 else lo - rng.randint(2, 4)
        b = a + rng.randint(1, 2)
    else:
        a, b = lo, hi + 1
        kind = "cover"
    idx = rng.choice(["default", "default", "perm", "offset", "sparse"])
    n = len(rows)
    if idx == "default":
        index = None
    elif idx == "perm":
        index = list(range(n))
        rng.shuffle(index)
    elif idx == "offset":
        index = [100 + i for i in range(n)]
    else:
        index = sorted(rng.sample(range(0, 5 * n + 5), n), reverse=rng.random() < 0.5)
    return dict(stream="table", rows=[r + [l] for r, l in zip(rows, lab)], sr8=sr8, range=[a, b],
                index=index, meta=dict(old_mode=old_mode, naming=scheme, range_kind=kind))


def gen_exhaustive():
    """all valid old partitions of 2 particles x 4 frames (7 link patterns per transition = 343),
    3 namings, every range inside / exceeding, 3 motion patterns"""
    patterns = {
        "static": ([0, 0, 0, 0], [16, 16, 16, 16]),        # patch links straight
        "swap": ([0, 0, 16, 16], [16, 16, 0, 0]),          # particles exchange places between f1 and f2
        "jump": ([0, 0, 40, 40], [16, 16, 16, 16]),        # particle 0 jumps out of range: patch breaks it
    }
    trans = [(), ((0, 0),), ((1, 1),), ((0, 0), (1, 1)), ((0, 1),), ((1, 0),), ((0, 1), (1, 0))]
    ranges = [(a, b) for a in range(0, 4) for b in range(a + 1, 5)] + [(-1, 2), (2, 6), (-1, 5)]
    for combo in itertools.product(range(7), repeat=3):
        # build partition
        lab = {}
        nxt = 0
        for p in (0, 1):
            lab[(0, p)] = nxt
            nxt += 1
        for t, c in enumerate(combo):
            linked = {}
            for s, d in trans[c]:
                linked[d] = lab[(t, s)]
            for p in (0, 1):
                if p in linked:
                    lab[(t + 1, p)] = linked[p]
                else:
                    lab[(t + 1, p)] = nxt
                    nxt += 1
        ids = sorted(set(lab.values()))
        namings = [dict((t, t) for t in ids), dict((t, len(ids) - 1 - t) for t in ids),
                   dict((t, 2 * t + 1) for t in ids)]
        for ni, nm in enumerate(namings):
            for pname, (x0, x1) in patterns.items():
                for (a, b) in ranges:
                    rows = []
                    for t in range(4):
                        rows.append([t, x0[t], 0, nm[lab[(t, 0)]]])
                        rows.append([t, x1[t], 0, nm[lab[(t, 1)]]])
                    yield dict(stream="table", rows=rows, sr8=8, range=[a, b], index=None, family="exh2x4",
                               meta=dict(old_mode="exhaustive", naming="n%d" % ni, range_kind=pname))


# ---- the `opts` stream: the options of link_partial's public signature and the layouts of the table
#
# Classes deliberately NOT generated, because the UNCHANGED tree fails on them (each is a finding that
# was reported, none is silenced by an oracle exception):
#   (open-ended link ranges, a float-typed t_column and narrow integer label columns used to be on
#   this list: repaired in /repo — cc756c2, 80089b8, 3d85c04 — and generated since)
#   (a user column called `_old_particle` used to be on this list too: repaired in /repo, generated since)
#   * an index NAMED `particle`: `groupby('particle')` is ambiguous -> ValueError;
#   * negative old labels (-1, ...): reconnect_traj_patch treats `p_old < 0` as "unlabelled" and does
#     not reconnect such a track at the range's edges.  The statement quantifies over labels "from
#     linking without memory", which are non-negative, so this is outside the property's domain;
#   * memory > 0 (reconnect_traj_patch's docstring excludes it; the statement says "without memory");
#   * neighbor_strategy='BTree' needs scikit-learn, link_strategy='numba' needs numba (neither is
#     installed: 'numba' silently falls back to 'recursive' and is generated as such).

LABEL_SCHEMES = {
    # injective maps on the small naturals produced by gen_table
    "keep": lambda t: t,
    "from7": lambda t: 7 + t,                              # labels not starting at 0
    "i32edge": lambda t: 2 ** 31 - 2 + t,                  # straddles the int32 limit
    "p53": lambda t: 2 ** 53 - 2 + t,                      # straddles the float64 integer limit
    "p53odd": lambda t: 2 ** 53 + 2 * t + 1,               # none of them is a float64
    "p60": lambda t: 2 ** 60 + t,                          # per-movie prefix: neighbours share one float64
    "p62s": lambda t: 2 ** 62 + 1000003 * t + 17,
    "i64max": lambda t: 2 ** 63 - 1 - t,                   # the top of int64
    "mixed": lambda t: t if t % 2 == 0 else 2 ** 60 + t,   # small and huge labels side by side
    "u64": lambda t: 2 ** 63 + 5 + t,                      # only representable as uint64 / object
}


def gen_opts(rng, thorough=False):
    inp = gen_table(rng, thorough)
    rows = inp["rows"]
    n = len(rows)
    o = {}
    # ---- labels: magnitude and dtype
    scheme = rng.choice(["keep"] * 5 + ["from7", "i32edge", "p53", "p53", "p53odd", "p53odd", "p60", "p60",
                                        "p60", "p62s", "i64max", "i64max", "mixed", "mixed", "u64"])
    fn = LABEL_SCHEMES[scheme]
    for r in rows:
        r[3] = fn(r[3])
    mx = max(r[3] for r in rows)
    if mx >= 2 ** 63:
        o["label_dtype"] = rng.choice(["uint64", "uint64", "object"])
    elif mx >= 2 ** 53:
        o["label_dtype"] = rng.choice(["int64"] * 6 + ["uint64", "object", "Int64"])
    else:
        o["label_dtype"] = rng.choice(["int64"] * 5 + ["uint64", "float64", "float64", "object", "Int64"])
        if mx < 2 ** 31 - 64 and rng.random() < 0.2:
            o["label_dtype"] = "int32" if mx >= 2 ** 15 - 64 else rng.choice(["int32", "int16", "uint32"])
    # ---- frame numbers: shifted far / negative, dtype
    shift = rng.choice([0] * 6 + [-7, -1000, 1000, 2 ** 31 + 5, -(2 ** 31) - 9])
    if shift:
        for r in rows:
            r[0] += shift
        inp["range"] = [inp["range"][0] + shift, inp["range"][1] + shift]
    flo, fhi = min(r[0] for r in rows), max(r[0] for r in rows)
    fd = ["int64"] * 4
    if -2 ** 31 <= flo and fhi < 2 ** 31 - 1:
        fd += ["int32", "int32"]
    if -2 ** 15 <= flo and fhi < 2 ** 15 - 1:
        fd += ["int16"]
    if -128 <= flo and fhi < 127:
        fd += ["int8"]
    if flo >= 0:
        fd += ["uint64", "uint32"] if fhi < 2 ** 32 - 1 else ["uint64"]
        if fhi < 255:
            fd += ["uint8", "uint16"]
    if abs(flo) < 2 ** 52 and abs(fhi) < 2 ** 52:
        fd += ["float64", "float64", "float32"] if max(abs(flo), abs(fhi)) < 2 ** 23 else ["float64", "float64"]
    o["frame_dtype"] = rng.choice(fd)
    # ---- t_column
    tk = rng.choice(["default"] * 4 + ["explicit", "custom", "custom", "custom", "custom_decoy", "custom_decoy",
                                       "custom_decoy", "default_decoy"])
    if tk == "explicit":
        o["t_explicit"] = True
    elif tk.startswith("custom"):
        o["t_column"] = rng.choice(["t", "t", "time", "frame_no", "Frame", "f"])
    if tk.endswith("decoy"):
        o["decoy_t"] = rng.choice(["double", "const", "reversed", "shifted", "scrambled"])
    # ---- positions: names, order, dimension
    pk = rng.choice(["guess"] * 4 + ["yx", "xy", "xy", "custom", "custom", "custom_decoy", "custom_decoy",
                                     "1d", "3d_guess", "3d_explicit", "z_passive"])
    names = {"x": "x", "y": "y", "z": "z"}
    if pk in ("3d_guess", "3d_explicit", "z_passive"):
        o["z8"] = [rng.choice([0, 0, 0, 4, 8]) for _ in range(n)]
    if pk == "guess" or pk == "3d_guess":
        pass
    elif pk == "3d_explicit":
        ax = ["x", "y", "z"]
        rng.shuffle(ax)
        o["axes"] = ax
        o["pos_explicit"] = True
    elif pk == "1d" and len({(r[0], r[1]) for r in rows}) == n:
        o["axes"] = ["x"]
        o["pos_explicit"] = True
    else:
        o["axes"] = ["x", "y"] if pk in ("xy", "z_passive") or (pk.startswith("custom") and rng.random() < 0.5) \
            else ["y", "x"]
        o["pos_explicit"] = True
        if pk.startswith("custom"):
            names = rng.choice([{"x": "px", "y": "py", "z": "pz"}, {"x": "x_um", "y": "y_um", "z": "z_um"},
                                {"x": "y", "y": "x", "z": "z"},          # the two default names exchanged
                                {"x": "col", "y": "row", "z": "plane"}])
            o["pos_decoys"] = pk == "custom_decoy"
    o["names"] = names
    if o.get("pos_explicit") and rng.random() < 0.25:
        o["pos_form"] = "tuple"
    # ---- search range: form, per-axis
    axes = o.get("axes") or (["z", "y", "x"] if o.get("z8") is not None else ["y", "x"])
    sk = rng.choice(["float"] * 4 + ["int", "npfloat", "tuple", "list", "aniso", "aniso", "aniso_list"])
    if sk in ("aniso", "aniso_list"):
        o["sr8"] = {ax: (inp["sr8"] if ax == "x" else rng.choice([8, 12, 16, 24, 40])) for ax in axes}
        o["sr_form"] = "tuple" if sk == "aniso" else "list"
    elif sk == "int":
        o["sr_form"] = "int" if inp["sr8"] % 8 == 0 else "float"
    else:
        o["sr_form"] = sk
    # ---- link_range form
    o["range_form"] = rng.choice(["tuple"] * 3 + ["list", "list", "npint", "ndarray", "open_lo", "open_hi",
                                                 "open_both"])
    cand = list(inp["range"])
    if o["range_form"] in ("open_lo", "open_both"):       # (None, b) means "from the first frame"
        cand[0] = min(r[0] for r in rows)
    if o["range_form"] in ("open_hi", "open_both"):       # (a, None) means "to the last frame"
        cand[1] = max(r[0] for r in rows) + 1
    if cand[0] < cand[1]:
        inp["range"] = cand
    else:
        o["range_form"] = "tuple"
    # ---- other columns whose names resemble the ones link_partial uses internally
    if rng.random() < 0.4:
        pool = ["particle_old", "old_particle", "_particle", "particle_new", "index", "level_0", "new",
                "frame_old", "_old", "mass", "_old_particle", "_old_particle", "__old_particle"]
        o["extra_cols"] = rng.sample(pool, rng.randint(1, 3))
    # ---- index layouts (on top of the ones of gen_table)
    ik = rng.choice(["base"] * 5 + ["str", "float", "negative", "dup_frame", "dup_const", "multi"])
    if ik == "str":
        inp["index"] = ["r%d" % ((7 * i + 3) % n) for i in range(n)] if n % 7 else ["r%d" % i for i in range(n)]
    elif ik == "float":
        inp["index"] = [0.5 * i - 1 for i in range(n)]
    elif ik == "negative":
        inp["index"] = [-(i + 1) for i in range(n)]
    elif ik == "dup_frame":
        inp["index"] = [r[0] for r in rows]
    elif ik == "dup_const":
        inp["index"] = [0] * n
    elif ik == "multi":
        inp["index"] = [[r[0], i % 3] for i, r in enumerate(rows)]
    if ik != "base":
        o["index_kind"] = ik
    if ik != "multi" and rng.random() < 0.3:
        # (an index called `particle` is excluded, see above)
        o["index_name"] = rng.choice(["frame", "x", "index", "idx", "val", o.get("t_column", "frame")])
    # ---- keyword arguments handed through to the linker
    kk = rng.choice(["none"] * 4 + ["memory0", "recursive", "nonrecursive", "drop", "drop", "auto", "numba",
                                    "kdtree", "adaptive", "predictor_none"])
    o["kwargs"] = {"none": {}, "memory0": {"memory": 0}, "recursive": {"link_strategy": "recursive"},
                   "nonrecursive": {"link_strategy": "nonrecursive"}, "drop": {"link_strategy": "drop"},
                   "auto": {"link_strategy": "auto"}, "numba": {"link_strategy": "numba"},
                   "kdtree": {"neighbor_strategy": "KDTree"},
                   "adaptive": {"adaptive_stop": 0.25, "adaptive_step": 0.9},
                   "predictor_none": {"predictor": None}}[kk]
    inp["stream"] = "opts"
    inp["opts"] = o
    inp["meta"] = dict(inp["meta"], label_scheme=scheme)
    return inp


def gen_cases(ctx):
    common.setup_repo_path()          # the generator links tables with tp.link (old labels)
    for inp in ctx.corpus():
        yield inp
    if ctx.thorough:
        for inp in gen_exhaustive():
            yield inp
    n = ctx.n(1600, 24000)
    for i in range(n):
        rng = ctx.rng("table", i)
        yield gen_table(rng, ctx.thorough)
    for i in range(ctx.n(1600, 16000)):
        yield gen_opts(ctx.rng("opts", i), ctx.thorough)


# ------------------------------------------------------------------------------------------------
# the oracle (from the property statement)

class UF:
    def __init__(self, n):
        self.p = list(range(n))

    def find(self, a):
        while self.p[a] != a:
            self.p[a] = self.p[self.p[a]]
            a = self.p[a]
        return a

    def union(self, a, b):
        a, b = self.find(a), self.find(b)
        if a != b:
            self.p[b] = a


def joined_pairs(frames, old, inlab, a, b):
    """generating pairs of Joined, tagged.  inlab[i] = in-range track of row i (None outside)."""
    n = len(frames)
    pairs = []
    inside = [a <= frames[i] < b for i in range(n)]
    by_old_before, by_old_after, by_new = {}, {}, {}
    for i in range(n):
        if inside[i]:
            by_new.setdefault(inlab[i], []).append(i)
        elif frames[i] < a:
            by_old_before.setdefault(old[i], []).append(i)
        else:
            by_old_after.setdefault(old[i], []).append(i)
    for grp in by_old_before.values():
        pairs += [("J1s", grp[0], j) for j in grp[1:]]
    for grp in by_old_after.values():
        pairs += [("J1s", grp[0], j) for j in grp[1:]]
    for m in by_old_before:
        if m in by_old_after:
            pairs.append(("J1x", by_old_before[m][0], by_old_after[m][0]))
    for grp in by_new.values():
        pairs += [("J2", grp[0], j) for j in grp[1:]]
    for i in range(n):
        if inside[i] and frames[i] == a and old[i] in by_old_before:
            pairs += [("J3", i, j) for j in by_old_before[old[i]]]
        if inside[i] and frames[i] == b - 1 and old[i] in by_old_after:
            pairs += [("J3", i, j) for j in by_old_after[old[i]]]
    return pairs


def oracle(frames, old, inlab, a, b, final):
    """returns (list of (check, message, offending label), conflict flag)"""
    n = len(frames)
    bad = []
    # (a) unique per frame
    seen = {}
    for i in range(n):
        k = (frames[i], final[i])
        if k in seen:
            bad.append(("unique", "label %s twice in frame %s (rows %d,%d)" % (final[i], frames[i], seen[k], i),
                        final[i]))
        seen[k] = i
    pairs = joined_pairs(frames, old, inlab, a, b)
    uf = UF(n)
    for _, i, j in pairs:
        uf.union(i, j)
    cls = [uf.find(i) for i in range(n)]
    # conflict: a Joined class with two rows in one frame
    conflict = len({(cls[i], frames[i]) for i in range(n)}) < n
    # (b) soundness
    first = {}
    for i in range(n):
        l = final[i]
        if l in first:
            if cls[first[l]] != cls[i]:
                bad.append(("sound", "rows %d and %d share label %s but are not Joined" % (first[l], i, l), l))
        else:
            first[l] = i
    # (c) completeness
    if not conflict:
        rep = {}
        for i in range(n):
            c = cls[i]
            if c in rep:
                if final[rep[c]] != final[i]:
                    bad.append(("complete", "rows %d and %d are Joined but labelled %s / %s"
                                % (rep[c], i, final[rep[c]], final[i]), final[i]))
            else:
                rep[c] = i
    else:
        for tag, i, j in pairs:
            if tag != "J1x" and final[i] != final[j]:
                bad.append(("complete", "rows %d and %d are %s-joined but labelled %s / %s"
                            % (i, j, tag, final[i], final[j]), final[i]))
    return bad, conflict


# ------------------------------------------------------------------------------------------------
# classification of a violation (narrow signatures)

def classify(check, label, cap_rows, start, stop, final_by_new, behaves_as_original):
    """cap_rows: (frame, old, new) as seen by reconnect_traj_patch.  The two signatures of the known
    defects of the unrepaired rule are only given when the output is exactly that of the model of the
    unrepaired rule (Rule.orig) and differs from the repaired one."""
    if cap_rows is None or not behaves_as_original:
        return dict(what="other", check=check)
    claimed = {}
    for fr, o, nw in cap_rows:
        if fr == start and o >= 0:
            claimed[o] = nw
    start_tracks = set(claimed.values())
    # D1: a track not present at the first frame ends at stop-1 with an old id claimed at the first frame
    d1 = {o for fr, o, nw in cap_rows if fr == stop - 1 and o >= 0 and nw not in start_tracks and o in claimed
          and claimed[o] != nw}
    if label in d1:
        return dict(what="patch-born-track-reuses-claimed-old-id", check=check)
    outside = {o for fr, o, nw in cap_rows if not (start <= fr < stop)}
    edge_old = {o for fr, o, nw in cap_rows if fr in (start, stop - 1) and o >= 0}
    edge_tracks = {nw for fr, o, nw in cap_rows if fr in (start, stop - 1) and o >= 0}
    inner_tracks = {nw for fr, o, nw in cap_rows if start <= fr < stop} - edge_tracks
    if (label in edge_old and label not in outside and label >= 0
            and any(final_by_new.get(t) == label for t in inner_tracks)):
        return dict(what="fresh-id-collides-with-reconnected-old-id", check=check)
    return dict(what="other", check=check)


# ------------------------------------------------------------------------------------------------
# one case

AXIS_COL = {"x": 1, "y": 2}      # canonical axes -> position in a row [frame, x8, y8, old]; z8 is in opts


def exact_int(v):
    """a label / frame number as an exact Python int; labels never pass through floats here: an
    integer-typed value is converted directly, a float-typed one only when it is integral (then the
    conversion is exact).  Raises ValueError for anything else (NaN, None, 2.5, ...)."""
    if isinstance(v, (bool, np.bool_)):
        raise ValueError("not an integer label: %r" % (v,))
    if isinstance(v, (int, np.integer)):
        return int(v)
    if isinstance(v, (float, np.floating)) and np.isfinite(v) and float(v).is_integer():
        return int(v)
    raise ValueError("not an integer label: %r" % (v,))


def exact_ints(series):
    return [exact_int(v) for v in series.tolist()]


def spec_of(inp):
    """the options of one case with their defaults (corpus entries and the `table` stream carry none)"""
    o = dict(inp.get("opts") or {})
    sp = dict(
        t_column=o.get("t_column", "frame"),        # name of the time column of the table
        t_explicit=o.get("t_explicit", False),      # pass t_column= even when it is the default
        decoy_t=o.get("decoy_t"),                   # an unrelated column carrying the OTHER default name
        names=o.get("names", {"x": "x", "y": "y", "z": "z"}),
        axes=o.get("axes"),                         # linked axes in the order given to pos_columns
        pos_explicit=o.get("pos_explicit", False),  # pass pos_columns= (else link_partial guesses)
        pos_form=o.get("pos_form", "list"),
        pos_decoys=o.get("pos_decoys", False),      # unrelated columns called x / y next to custom names
        z8=o.get("z8"),
        sr8=o.get("sr8"),                           # {axis: sr8} (per-axis) or None: scalar inp["sr8"]
        sr_form=o.get("sr_form", "float"),
        range_form=o.get("range_form", "tuple"),
        label_dtype=o.get("label_dtype", "int64"),
        frame_dtype=o.get("frame_dtype", "int64"),
        extra_cols=o.get("extra_cols", []),
        index_kind=o.get("index_kind"),
        index_name=o.get("index_name"),
        kwargs=o.get("kwargs", {}),
    )
    if sp["axes"] is None:
        sp["axes"] = ["z", "y", "x"] if sp["z8"] is not None else ["y", "x"]
    return sp


def coord8(inp, sp, i, axis):
    return sp["z8"][i] if axis == "z" else inp["rows"][i][AXIS_COL[axis]]


def sr8_of(inp, sp, axis):
    return inp["sr8"] if sp["sr8"] is None else sp["sr8"][axis]


def build_df(inp, sp=None):
    import pandas as pd
    sp = sp or spec_of(inp)
    rows = inp["rows"]
    n = len(rows)
    nm = sp["names"]
    cols = {}
    cols[nm["x"]] = [r[1] / 8.0 for r in rows]
    cols[nm["y"]] = [r[2] / 8.0 for r in rows]
    if sp["z8"] is not None:
        cols[nm["z"]] = [z / 8.0 for z in sp["z8"]]
    cols[sp["t_column"]] = pd.Series([int(r[0]) for r in rows], dtype=sp["frame_dtype"])
    # labels are built from exact Python ints with the requested dtype (float64 is only generated for
    # labels below 2**53, where it is exact)
    cols["particle"] = pd.Series([int(r[3]) for r in rows], dtype=sp["label_dtype"])
    cols["val"] = [1000 + 7 * i for i in range(n)]
    frames = [int(r[0]) for r in rows]
    if sp["decoy_t"]:
        other = "t" if sp["t_column"] == "frame" else "frame"
        lo, hi = min(frames), max(frames)
        cols[other] = {"double": [2 * f for f in frames], "const": [lo + 1] * n,
                       "reversed": [lo + hi - f for f in frames], "shifted": [f + 1 for f in frames],
                       "scrambled": [lo + (5 * (f - lo) + 3 * i) % (hi - lo + 2) for i, f in enumerate(frames)],
                       }[sp["decoy_t"]]
    if sp["pos_decoys"]:
        for k, ax in enumerate(("x", "y")):
            if nm[ax] != ax and ax not in cols:
                cols[ax] = [float((11 * i + 5 * k) % 7) for i in range(n)]
    for k, c in enumerate(sp["extra_cols"]):
        if c in cols:
            continue
        cols[c] = ([3 * i + 1 for i in range(n)] if k % 3 == 0 else
                   [0.5 * i - 2 for i in range(n)] if k % 3 == 1 else ["s%d" % (i % 4) for i in range(n)])
    df = pd.DataFrame(cols)
    if inp.get("index") is not None:
        if sp["index_kind"] == "multi":
            df.index = pd.MultiIndex.from_tuples([tuple(t) for t in inp["index"]])
        else:
            df.index = list(inp["index"])
    if sp["index_name"] is not None:
        df.index.name = sp["index_name"]
    return df


def call_args(inp, sp):
    """the arguments of link_partial for this case"""
    a, b = inp["range"]
    axes = sp["axes"]
    per = [sr8_of(inp, sp, ax) / 8.0 for ax in axes]
    form = sp["sr_form"]
    if form == "float":
        sr = per[0]
    elif form == "int":
        sr = int(per[0])
    elif form == "npfloat":
        sr = np.float64(per[0])
    elif form == "list":
        sr = list(per)
    else:
        sr = tuple(per)
    rf = sp["range_form"]
    rng_arg = {"tuple": (a, b), "list": [a, b], "npint": (np.int64(a), np.int64(b)),
               "ndarray": np.array([a, b], dtype=np.int64), "open_lo": (None, b), "open_hi": (a, None),
               "open_both": (None, None)}[rf]
    kw = dict(sp["kwargs"])
    if sp["pos_explicit"]:
        pc = [sp["names"][ax] for ax in axes]
        kw["pos_columns"] = tuple(pc) if sp["pos_form"] == "tuple" else pc
    if sp["t_explicit"] or sp["t_column"] != "frame":
        kw["t_column"] = sp["t_column"]
    return sr, rng_arg, kw


def run_impl(df, inp, sp):
    """-> (out DataFrame or None, exception or None, capture or None)"""
    import trackpy as tp
    from trackpy.linking import partial as P
    cap = {}
    orig = P.reconnect_traj_patch
    tcol = sp["t_column"]

    def wrapped(*args, **kw):
        # capture what reconnect_traj_patch receives; every column is read on its own (a joint
        # `.values` of columns of different dtypes would upcast labels to float64)
        try:
            f = args[0] if len(args) > 0 else kw["f"]
            lr = args[1] if len(args) > 1 else kw["link_range"]
            oc = args[2] if len(args) > 2 else kw["old_particle_column"]
            cap["range"] = (int(lr[0]), int(lr[1]))
            cap["rows"] = list(zip(exact_ints(f[tcol]), exact_ints(f[oc]), exact_ints(f["particle"])))
            cap["rid"] = [(v - 1000) // 7 for v in exact_ints(f["val"])]
            cap["t_arg"] = args[3] if len(args) > 3 else kw.get("t_column", "<default>")
        except Exception as e:  # noqa
            cap.clear()
            cap["error"] = "%s: %s" % (type(e).__name__, e)
        return orig(*args, **kw)

    P.reconnect_traj_patch = wrapped
    sr, rng_arg, kw = call_args(inp, sp)
    try:
        out = tp.link_partial(df, sr, rng_arg, **kw)
        return out, None, (cap if cap else None)
    except Exception as e:  # judged by the caller
        return None, e, (cap if cap else None)
    finally:
        P.reconnect_traj_patch = orig


def independent_inlab(inp, sp, a, b):
    """J2 from an independent tp.link of the range's rows: row number -> track.  The table handed to
    tp.link is built afresh from the case (columns `frame` and the axis letters, default index), so
    it does not depend on how link_partial plumbs t_column / pos_columns / the index; the options
    that define what a link IS (per-axis search range, linker kwargs) are the same."""
    import pandas as pd
    import trackpy as tp
    rows = inp["rows"]
    sel = [i for i in range(len(rows)) if a <= rows[i][0] < b]
    if not sel:
        return {}
    axes = sp["axes"]
    d = dict(frame=[int(rows[i][0]) for i in sel], rid=sel)
    for ax in axes:
        d[ax] = [coord8(inp, sp, i, ax) / 8.0 for i in sel]
    per = [sr8_of(inp, sp, ax) / 8.0 for ax in axes]
    sr = per[0] if len(set(per)) == 1 else tuple(per)
    out = tp.link(pd.DataFrame(d), search_range=sr, pos_columns=list(axes), **dict(sp["kwargs"]))
    return {int(r): int(p) for r, p in zip(out["rid"].tolist(), out["particle"].tolist())}


def same_partition(d1, d2):
    if set(d1) != set(d2):
        return False
    f, g = {}, {}
    for k in d1:
        if f.setdefault(d1[k], d2[k]) != d2[k] or g.setdefault(d2[k], d1[k]) != d1[k]:
            return False
    return True


def links_valid(inp, sp, lab):
    """lab: row number -> in-range track; consecutive frames, every step within the (per-axis) search
    range: sum_a (d_a / sr_a)^2 <= 1, evaluated exactly on the 1/8 grid"""
    from fractions import Fraction
    rows = inp["rows"]
    by = {}
    for i, t in lab.items():
        by.setdefault(t, []).append((int(rows[i][0]), i))
    for t, lst in by.items():
        lst.sort()
        for (f1, i), (f2, j) in zip(lst, lst[1:]):
            if f2 != f1 + 1:
                return False
            q = sum(Fraction((coord8(inp, sp, j, ax) - coord8(inp, sp, i, ax)) ** 2, sr8_of(inp, sp, ax) ** 2)
                    for ax in sp["axes"])
            if q > 1:
                return False
    return True


def opt_stats(res, inp, sp, rows, a, b, hi):
    """publish the distribution of the options (the `opts` stream)"""
    res.stat("stream_" + str(inp.get("stream", "corpus")))
    if sp["t_column"] != "frame":
        res.stat("opt_t_column_custom")
        res.stat("opt_t_column_custom_with_unrelated_frame_column" if sp["decoy_t"]
                 else "opt_t_column_custom_no_frame_column")
    elif sp["decoy_t"]:
        res.stat("opt_unrelated_t_column_next_to_frame")
    if sp["t_explicit"]:
        res.stat("opt_t_column_default_passed_explicitly")
    if sp["pos_explicit"]:
        res.stat("opt_pos_columns_" + "".join(sp["axes"]) + ("_tuple" if sp["pos_form"] == "tuple" else ""))
    else:
        res.stat("opt_pos_columns_guessed_" + "".join(sp["axes"]))
    if sp["names"].get("x") != "x":
        res.stat("opt_pos_custom_names" + ("_with_unrelated_xy" if sp["pos_decoys"] else ""))
    res.stat("opt_ndim_%d" % len(sp["axes"]))
    per = [sr8_of(inp, sp, ax) for ax in sp["axes"]]
    res.stat("opt_search_range_%s%s" % (sp["sr_form"], "_anisotropic" if len(set(per)) > 1 else ""))
    res.stat("opt_link_range_" + sp["range_form"])
    res.stat("opt_label_dtype_" + sp["label_dtype"])
    res.stat("opt_frame_dtype_" + sp["frame_dtype"])
    if sp["extra_cols"]:
        res.stat("opt_extra_columns")
    if sp["index_kind"]:
        res.stat("opt_index_" + sp["index_kind"])
    if sp["index_name"] is not None:
        res.stat("opt_index_named")
    for k, v in sorted(sp["kwargs"].items()):
        res.stat("opt_kw_%s_%s" % (k, v))
    if not sp["kwargs"]:
        res.stat("opt_kw_none")
    mx = max(r[3] for r in rows)
    res.stat("labels_max_" + ("lt_2p31" if mx < 2 ** 31 else "lt_2p53" if mx < 2 ** 53 else
                              "lt_2p63" if mx < 2 ** 63 else "ge_2p63"))
    if min(r[3] for r in rows) > 0:
        res.stat("labels_not_starting_at_0")
    if min(r[0] for r in rows) < 0:
        res.stat("negative_frame_numbers")
    if max(abs(r[0]) for r in rows) >= 2 ** 31:
        res.stat("frame_numbers_ge_2p31")
    if b <= hi:
        res.stat("range_ends_before_table_end")
        at_edge = {r[3] for r in rows if r[0] == b - 1}
        if any(r[0] >= b and r[3] not in at_edge for r in rows):
            res.stat("track_born_after_range")
            if mx >= 2 ** 53:
                res.stat("track_born_after_range_labels_ge_2p53")


def run_case(ctx, inp):
    res = Result()
    rows = inp["rows"]
    a, b = inp["range"]
    meta = inp.get("meta", {})
    if not _valid_old(rows):
        res.violation("harness-error", "generator produced an invalid old labelling: %r" % (rows,))
        return res
    sp = spec_of(inp)
    n = len(rows)
    tcol = sp["t_column"]
    srdesc = {ax: sr8_of(inp, sp, ax) / 8.0 for ax in sp["axes"]}
    df = build_df(inp, sp)
    frames_all = sorted(set(int(r[0]) for r in rows))
    lo, hi = frames_all[0], frames_all[-1]
    in_frames = [f for f in range(max(a, lo), min(b, hi + 1))]
    overlaps = len(in_frames) > 0
    empty_in_range = [f for f in in_frames if f not in set(frames_all)]
    res.stat("cases")
    res.stat("old_" + str(meta.get("old_mode", "corpus")))
    res.stat("naming_" + str(meta.get("naming", "corpus")))
    if meta.get("label_scheme"):
        res.stat("label_scheme_" + meta["label_scheme"])
    res.stat("rows_%s" % ("1-4" if len(rows) <= 4 else "5-12" if len(rows) <= 12 else "13-30" if len(rows) <= 30 else "31+"))
    if inp.get("family"):
        res.stat("exhaustive_family")
    if empty_in_range:
        res.stat("empty_frame_in_range")
    if not overlaps:
        res.stat("range_disjoint_from_data")
    if b == a + 1:
        res.stat("single_frame_range")
    if a < lo or b > hi + 1:
        res.stat("range_exceeds_data")
    if inp.get("index") is not None:
        res.stat("nondefault_index")
    opt_stats(res, inp, sp, rows, a, b, hi)

    before = df.copy()
    out, exc, cap = run_impl(df, inp, sp)
    # the caller's table must not be modified
    if not before.equals(df) or list(before.index) != list(df.index) or \
            [str(t) for t in before.dtypes] != [str(t) for t in df.dtypes]:
        res.violation("property-violation", "link_partial modified the caller's table",
                      signature=dict(what="input-mutated"))

    if exc is not None:
        res.stat("impl_raised")
        if not overlaps:
            sig = dict(what="range-outside-data-raises", error=type(exc).__name__)
        elif empty_in_range:
            sig = dict(what="empty-frame-in-range-raises", error=type(exc).__name__)
        else:
            sig = dict(what="unexpected-exception", error=type(exc).__name__)
        res.violation("property-violation",
                      "link_partial raised %s: %s (range %s, frames %d..%d, empty frames in range %s, call %s)"
                      % (type(exc).__name__, str(exc)[:120], (a, b), lo, hi, empty_in_range,
                         describe_call(inp, sp)),
                      impl="raise:" + type(exc).__name__, broken=sig["what"], signature=sig)
        return res

    # ---- (d) rows and values preserved ---------------------------------------------------------
    # rows are identified by the unique passive column `val` (the index may hold duplicates)
    cols_in = list(before.columns)
    psig = dict(what="other", check="preserve")
    if sorted(map(str, out.columns)) != sorted(map(str, cols_in)):
        res.violation("property-violation", "columns changed: %s -> %s" % (cols_in, list(out.columns)),
                      signature=psig)
        return res
    bval = before["val"].tolist()
    oval = out["val"].tolist()
    if sorted(oval) != sorted(bval):
        res.violation("property-violation", "rows not preserved: val %s -> %s" % (bval, oval), signature=psig)
        return res
    opos = {v: k for k, v in enumerate(oval)}
    out_al = out.iloc[[opos[v] for v in bval]]        # the output in the input's row order
    # (the NAME of the index is not judged: trackpy's pandas_sort deliberately renames an index that
    # is called like the t_column to '<name>_index')
    if list(out_al.index) != list(before.index):
        res.violation("property-violation", "index not preserved: %s -> %s"
                      % (list(before.index), list(out_al.index)), signature=psig)
        return res
    for c in cols_in:
        if c == "particle":
            continue
        if out_al[c].tolist() != before[c].tolist():
            res.violation("property-violation", "values of column %r changed: %s -> %s"
                          % (c, before[c].tolist(), out_al[c].tolist()), signature=psig)
            return res

    # canonical row order for the oracle: the input order; row i <-> val 1000 + 7 i
    frames = [int(r[0]) for r in rows]
    old = [int(r[3]) for r in rows]
    try:
        final = exact_ints(out_al["particle"])
    except ValueError as e:
        res.violation("property-violation", "the output is not a labelling: %s (labels %s)"
                      % (e, out_al["particle"].tolist()), signature=dict(what="non-integer-label"))
        return res
    if any(l < 0 for l in final):
        i = [k for k in range(n) if final[k] < 0][0]
        res.violation("property-violation", "row %d (frame %d) is left unlabelled: label %d; range %s"
                      % (i, frames[i], final[i], (a, b)), impl=dict(final=final),
                      signature=dict(what="negative-label"))
        return res
    rid_sorted = [(v - 1000) // 7 for v in oval]       # row numbers in the output's row order

    # ---- in-range labels: captured vs independent ------------------------------------------------
    indep = independent_inlab(inp, sp, a, b) if overlaps else {}
    cap_ok = cap is not None and "error" not in cap
    if cap is not None and not cap_ok:
        res.stat("capture_failed")
    if cap_ok:
        start, stop = cap["range"]
        captured = {i: nw for i, (fr, o, nw) in zip(cap["rid"], cap["rows"]) if start <= fr < stop}
        res.stat("mode_reconnect")
    else:
        start, stop = max(a, lo), min(b, hi + 1)
        captured = {i: final[i] for i in range(n) if a <= frames[i] < b}
        if cap is None:
            res.stat("mode_full" if overlaps else "mode_norange")
    inlab_src = indep
    inner_mismatch = False
    if not same_partition(indep, captured):
        # `drop` leaves every subnetwork unlinked: there is no tie that could be broken differently
        if set(indep) == set(captured) and sp["kwargs"].get("link_strategy") != "drop" and \
                links_valid(inp, sp, captured) and \
                len({(frames[i], t) for i, t in captured.items()}) == len(captured):
            res.stat("inner_link_tie_broken_differently")
            inlab_src = captured
        else:
            # the implementation re-linked something else than the rows of [a, b): judge its output
            # against the statement (J2 from the independent link); reported below
            inner_mismatch = True
    inlab = [inlab_src.get(i) for i in range(n)]

    # ---- oracle -----------------------------------------------------------------------------------
    bad, conflict = oracle(frames, old, inlab, a, b, final)
    res.stat("joined_conflict" if conflict else "joined_no_conflict")
    if inner_mismatch and not bad:
        res.violation("correspondence-break",
                      "labels inside the range are not a linking of the range's rows",
                      impl=captured, model=indep, broken="in-range labels = link of the range",
                      signature=dict(what="inner-link"))
        return res

    # ---- model ------------------------------------------------------------------------------------
    if cap_ok:
        mrows = cap["rows"]
        mrid = cap["rid"]
    else:
        mrid = rid_sorted
        mrows = [(frames[i], old[i], final[i] if a <= frames[i] < b else old[i]) for i in mrid]
    impl_labels = [final[i] for i in mrid]
    # order hint: in-range tracks sorted by the label the implementation gave them
    fin = {}
    for (fr, o, nw), l in zip(mrows, impl_labels):
        if start <= fr < stop:
            fin[nw] = l
    order_hint = [t for t, _ in sorted(fin.items(), key=lambda kv: kv[1])]
    body = " | ".join([",".join(map(str, order_hint)),
                       ";".join("%d,%d,%d" % r for r in mrows)])
    mf = common.kv(ctx.ask("PARTIAL fixed %d %d | %s" % (a, b, body)))
    mo = common.kv(ctx.ask("PARTIAL orig %d %d | %s" % (a, b, body)))

    def labels_of(m):
        if "labels" not in m:
            return None
        return [int(t) for t in m["labels"].split(",")] if m["labels"] is not True and m["labels"] != "" else []

    lf, lo_ = labels_of(mf), labels_of(mo)
    final_by_new = {}
    if cap_ok:
        for i, (fr, o, nw) in zip(cap["rid"], cap["rows"]):
            if start <= fr < stop:
                final_by_new[nw] = final[i]
    seen_sig = set()
    for check, msg, label in bad:
        sig = classify(check, label, cap["rows"] if cap_ok else None, start, stop, final_by_new,
                       behaves_as_original=(lo_ == impl_labels and lf != impl_labels))
        key = common.canon(sig)
        if key in seen_sig:
            continue
        seen_sig.add(key)
        res.violation("property-violation", "%s: %s; range %s search_range %s; call %s"
                      % (check, msg, (a, b), srdesc, describe_call(inp, sp)),
                      impl=dict(final=final), broken=sig["what"], signature=sig)

    if mf.get("validold") == "0" or mf.get("validnew") == "0":
        if bad:
            return res          # the captured in-range labels are themselves broken; already reported
        res.violation("harness-error", "driver judges the input invalid: %r" % mf)
        return res
    if lf != lo_:
        res.stat("orig_rule_differs_from_fixed")
    if lf == impl_labels:
        res.stat("impl_equals_fixed_model")
    if lo_ == impl_labels:
        res.stat("impl_equals_orig_model")
    if lf != impl_labels and not bad:
        res.violation("correspondence-break", "implementation labels differ from the model (Rule.fixed)",
                      impl=impl_labels, model=mf, broken="Partial.linkPartial Rule.fixed",
                      signature=dict(what="model-differs", equals_orig=(lo_ == impl_labels)))
    if mf.get("mode") == "reconnect":
        if mf.get("nrem", "0") != "0":
            res.stat("fresh_ids_assigned")
        if mf.get("npend", "0") != "0":
            res.stat("guard_fired")
        if mf.get("contignew") == "0":
            res.stat("inrange_tracks_with_gaps")

    # ---- non-triviality -----------------------------------------------------------------------------
    crossing = any((frames[i] == a and any(old[j] == old[i] and frames[j] < a for j in range(len(rows)))) or
                   (frames[i] == b - 1 and any(old[j] == old[i] and frames[j] >= b for j in range(len(rows))))
                   for i in range(len(rows)))
    in_idx = [i for i in range(len(rows)) if a <= frames[i] < b]
    changed = not same_partition({i: old[i] for i in in_idx}, {i: inlab[i] for i in in_idx})
    if crossing:
        res.stat("old_track_crosses_range_edge")
    if changed:
        res.stat("patch_changes_partition")
    res.nontrivial = bool(cap_ok and crossing and changed)
    if res.nontrivial and inp.get("stream") == "opts":
        res.stat("nontrivial_opts_stream")
    if res.nontrivial and not res.viol and (conflict or mf.get("npend", "0") != "0"):
        res.sample = dict(input=dict(rows=rows, range=[a, b], sr8=inp["sr8"]), final=final,
                          model=mf.get("labels"), conflict=conflict)
    return res


def describe_call(inp, sp):
    sr, rng_arg, kw = call_args(inp, sp)
    return "link_partial(f, %r, %r%s) label dtype %s" % (
        sr, rng_arg if not isinstance(rng_arg, np.ndarray) else rng_arg.tolist(),
        "".join(", %s=%r" % kv for kv in sorted(kw.items())), sp["label_dtype"])
