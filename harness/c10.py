"""C10 — bandpass is the documented filter and nothing else.

Per case (function mode):
  implementation : trackpy.preprocessing.bandpass / lowpass / boxcar on a float image
  model          : Lean `Bandpass.bandpass / lowpass / boxcar` over exact rationals (driver ops BP, LOW,
                   BOX); the Gaussian kernel of every axis is computed HERE from the documented
                   formula exp(-x^2/2 sigma^2)/sum, |x| <= int(truncate*sigma+0.5), with `decimal` at
                   50 digits, independently of trackpy.masks.gaussian_kernel
  direct oracle  : pure numpy written from the statement (n-D weighted sum over the zero-padded
                   image with the outer-product kernel, minus the mean over the llong box of the
                   edge-padded image, values below threshold -> 0), plus direct checks of shape,
                   sign, "0 or >= threshold", linearity, transposition, input untouched, rejection.
A disagreement with the oracle / a direct check is a `property-violation`; a disagreement with the
model only is a `correspondence-break`.
"""
import decimal
import functools
import itertools
import math
from fractions import Fraction

import numpy as np

from . import common
from .common import Result

PROP = "C10"
RULE = ("bp stream: float images 2-D (3-40 px per side) and 3-D (3-12 px), kinds = k/16 grid, random "
        "doubles (also negative / scaled by 255, 1e-3), constant, single spike at a corner / edge / "
        "interior, exact-tie spikes and probes of the default threshold 1/255; float64 (C, Fortran, strided and reversed views) and float32; "
        "lshort in {0,.25,.5,1,1.5,2,3,0.3,0.7,1.1} scalar or per axis, odd llong 1-15 scalar or per "
        "axis (> lshort), threshold in {0, default, k/8, amplitude*k/32, negative}, truncate in "
        "{2,3,4}; images smaller than the kernels included.  reject stream: lshort >= llong (equal, "
        "larger, on one axis only), even llong, wrong tuple length, and the valid neighbours of each. "
        "Non-trivial = accepted case where both filters act on some axis and the output has both a "
        "kept (> 0) and a zeroed pixel, or a rejected case; distinct = distinct canonical input.")
ASSUMPTIONS = [
    "float policy: the model is exact; implementation values are compared with absolute tolerance "
    "1e-9*max|img| (float64) or 1e-5*max|img| (float32 images: boxcar stores float32 between axis "
    "passes); pixels whose unclipped value is within that tolerance of a non-zero threshold may take "
    "either branch (counted as borderline pixels), except exact ties (float value == threshold == "
    "exact value) which must be kept",
    "the Gaussian kernel is a parameter of the model; the harness supplies the documented kernel "
    "(decimal, 50 digits); the radius int(truncate*sigma+0.5) is evaluated in float as the code does "
    "and cases where exact arithmetic gives another radius are not generated",
    "scipy.ndimage.correlate1d(mode='constant') and uniform_filter1d(mode='nearest') are modelled by "
    "their textbook definitions (zero extension / index clamping)",
    "sigma = 0 is read as 'no smoothing' (delta kernel); negative sigma, NaN/inf pixels, integer "
    "images and non-integer llong are outside the quantifier and not generated",
    "'never negative' is checked for thresholds >= 0 only (DESIGN section 4)",
]
MIN_NONTRIVIAL = 20

TOL64, TOL32 = 1e-9, 1e-5


def init(ctx):
    common.setup_repo_path()


# ------------------------------------------------------------------------------------------
# documented kernel, independent of trackpy

def radius(sigma, truncate):
    return int(truncate * sigma + 0.5)


def radius_exact(sigma, truncate):
    return math.floor(Fraction(truncate) * Fraction(sigma) + Fraction(1, 2))


@functools.lru_cache(maxsize=None)
def kernel_frac(sigma, truncate):
    """exp(-x^2/(2 sigma^2)) / sum, x = -lw..lw, as exact Fractions of 50-digit decimals"""
    lw = radius(sigma, truncate)
    dctx = decimal.Context(prec=50)
    s = Fraction(sigma)
    g = []
    for x in range(-lw, lw + 1):
        e = -Fraction(x * x) / (2 * s * s)
        d = dctx.divide(decimal.Decimal(e.numerator), decimal.Decimal(e.denominator))
        g.append(Fraction(dctx.exp(d)))
    tot = sum(g)
    return tuple(v / tot for v in g)


def kernel_float(sigma, truncate):
    lw = radius(sigma, truncate)
    g = [math.exp(-(x * x) / (2.0 * sigma * sigma)) for x in range(-lw, lw + 1)]
    tot = math.fsum(g)
    return [v / tot for v in g]


# ------------------------------------------------------------------------------------------
# direct oracle: pure numpy, from the statement

def oracle_lowpass(img, sigmas, truncate):
    """image correlated with the outer product of the truncated normalised Gaussians, zero beyond
    the border (sigma == 0: delta)"""
    img = np.asarray(img, dtype=np.float64)
    ks = [kernel_float(s, truncate) if s > 0 else [1.0] for s in sigmas]
    pad = [(len(k) // 2, len(k) // 2) for k in ks]
    P = np.pad(img, pad, mode="constant", constant_values=0.0)
    acc = np.zeros(img.shape, dtype=np.float64)
    for offs in itertools.product(*[range(len(k)) for k in ks]):
        w = 1.0
        for a, o in enumerate(offs):
            w *= ks[a][o]
        acc += w * P[tuple(slice(o, o + n) for o, n in zip(offs, img.shape))]
    return acc


def oracle_boxcar(img, sizes):
    """mean over the box of sides `sizes` centred on the pixel, edge values repeated"""
    img = np.asarray(img, dtype=np.float64)
    sizes = [max(int(m), 1) for m in sizes]
    pad = [(m // 2, m // 2) for m in sizes]
    P = np.pad(img, pad, mode="edge")
    acc = np.zeros(img.shape, dtype=np.float64)
    for offs in itertools.product(*[range(m) for m in sizes]):
        acc += P[tuple(slice(o, o + n) for o, n in zip(offs, img.shape))]
    return acc / float(np.prod(sizes))


# ------------------------------------------------------------------------------------------
# generation

LSHORT = [0, 0.25, 0.5, 1, 1.5, 2, 3, 0.3, 0.7, 1.1]
LSHORT3 = [0, 0.5, 1, 1.5, 0.7, 2]


def _pick_sigma(rng, pool, truncate):
    for _ in range(20):
        s = rng.choice(pool)
        if radius(s, truncate) == radius_exact(s, truncate):
            return s
    return 1


def gen_pixels(rng, shape, kind):
    n = int(np.prod(shape))
    amp = rng.choice([1, 1, 1, 16, 255])
    if kind == "grid":
        return [rng.randint(0, 16 * amp) / 16.0 for _ in range(n)], amp
    if kind == "random":
        scale = rng.choice([1.0, 1.0, 255.0, 1e-3, 1e4])
        neg = rng.random() < 0.25
        return [(rng.random() - (0.5 if neg else 0.0)) * scale for _ in range(n)], scale
    if kind == "constant":
        v = rng.choice([0.0, 1.0, 0.5, 3.25, 255.0, 0.1])
        return [v] * n, max(v, 1.0)
    if kind == "blobs":
        # a few gaussian-like bumps on a sloped background, on a 1/16 grid: typical microscopy-like input
        nd = len(shape)
        cents = [[rng.uniform(0, s - 1) for s in shape] for _ in range(rng.randint(1, 4))]
        w = rng.choice([1.0, 1.5, 2.5])
        px = []
        for idx in itertools.product(*[range(s) for s in shape]):
            v = 0.1 * idx[-1] / max(shape[-1], 1)
            for c in cents:
                v += math.exp(-sum((i - ci) ** 2 for i, ci in zip(idx, c)) / (2 * w * w))
            px.append(round(v * 16 * amp) / 16.0)
        return px, amp
    # spike
    px = [rng.choice([0.0, 0.0, 0.25])] * n
    pos = []
    for s in shape:
        pos.append(rng.choice([0, 0, s - 1, s - 1, rng.randrange(s), min(1, s - 1), max(s - 2, 0)]))
    flat = 0
    for p, s in zip(pos, shape):
        flat = flat * s + p
    px[flat] = rng.choice([1.0, 1.125, 9.0, 0.5, 255.0])
    return px, max(px)


def gen_bp(rng, thorough):
    nd = 2 if rng.random() < 0.7 else 3
    if nd == 2:
        hi = rng.choice([6, 12, 20, 40])
        shape = [rng.randint(3, hi) for _ in range(2)]
    else:
        hi = rng.choice([5, 8, 12])
        shape = [rng.randint(3, hi) for _ in range(3)]
    if rng.random() < 0.04:
        shape[rng.randrange(nd)] = rng.choice([1, 2])
    kind = rng.choice(["grid", "grid", "random", "random", "blobs", "blobs", "constant", "spike",
                       "spike"])
    pixels, amp = gen_pixels(rng, shape, kind)
    truncate = rng.choice([4, 4, 3, 2])
    pool = LSHORT if nd == 2 else LSHORT3
    per_axis_s = rng.random() < 0.35
    per_axis_l = rng.random() < 0.35
    ls = [_pick_sigma(rng, pool, truncate) for _ in range(nd)]
    if not per_axis_s:
        ls = [ls[0]] * nd
    ll = []
    for a in range(nd):
        lo = int(math.floor(ls[a])) + 1
        cands = [m for m in (1, 3, 5, 7, 9, 11, 13, 15) if m > ls[a] and m >= lo]
        if nd == 3:
            cands = [m for m in cands if m <= 9] or cands[:1]
        ll.append(rng.choice(cands))
    if not per_axis_l:
        m = max(ll)
        ll = [m] * nd
    tk = rng.choice(["zero", "default", "default", "k8", "amp", "amp", "neg"])
    thr = {"zero": 0.0, "default": None, "k8": rng.randint(1, 8) / 8.0,
           "amp": amp * rng.randint(1, 8) / 32.0, "neg": -rng.randint(1, 4) / 8.0}[tk]
    dtype = "float32" if rng.random() < 0.1 else "float64"
    if dtype == "float32":
        pixels = [float(np.float32(v)) for v in pixels]
    layout = rng.choice(["C", "C", "F", "strided", "reversed"])
    perm = list(range(nd))
    while perm == list(range(nd)):
        rng.shuffle(perm)
    return dict(stream="bp", shape=shape, pixels=pixels, kind=kind, dtype=dtype, layout=layout,
                lshort=(ls if per_axis_s else ls[0]), llong=(ll if per_axis_l else ll[0]),
                threshold=thr, truncate=truncate, lin_c=rng.choice([2.0, 0.5, 3.0, 0.1, 7.5]),
                perm=perm)


def gen_tie(rng):
    """lshort = 0, llong = 3: the unclipped value at an interior spike of height 9^nd/(9^nd-1)... is
    exact in float; chosen so that it equals the threshold exactly"""
    nd = rng.choice([2, 2, 3])
    shape = [rng.randint(4, 8) for _ in range(nd)]
    T = rng.choice([1.0, 0.5, 2.0, 8.0])
    where = rng.choice(["interior", "corner"])
    n = int(np.prod(shape))
    px = [0.0] * n
    if rng.random() < 0.25:
        # probe of the documented default threshold 1/255 of float images: an interior spike whose
        # unclipped value 2v/3 lies just below / just above 1/255 (and above 1/256)
        pos = [rng.randint(1, s - 2) for s in shape]
        flat = 0
        for p, s in zip(pos, shape):
            flat = flat * s + p
        px[flat] = 1.5 * rng.choice([0.00391, 0.003915, 0.00393, 0.00395])
        return dict(stream="bp", shape=shape, pixels=px, kind="default-probe", dtype="float64",
                    layout="C", lshort=0, llong=[3] + [1] * (nd - 1), threshold=None, truncate=4,
                    lin_c=2.0, perm=list(range(nd))[::-1])
    if where == "interior":
        pos = [rng.randint(1, s - 2) for s in shape]
        # value v, box mean v/3^nd  -> diff = v (1 - 3^-nd): not dyadic; use lshort=0, llong=(3,1,..):
        llong = [3] + [1] * (nd - 1)
        v = 1.5 * T          # diff = v - v/3 = T
    else:
        pos = [0] * nd
        llong = [3] + [1] * (nd - 1)
        v = 3.0 * T          # corner, edge replicated: mean = 2v/3, diff = v/3 = T
    flat = 0
    for p, s in zip(pos, shape):
        flat = flat * s + p
    px[flat] = v
    perm = list(range(nd))[::-1]
    return dict(stream="bp", shape=shape, pixels=px, kind="tie", dtype="float64", layout="C",
                lshort=0, llong=llong, threshold=T, truncate=4, lin_c=2.0, perm=perm)


def gen_reject(rng):
    nd = rng.choice([2, 2, 3])
    shape = [rng.randint(3, 6) for _ in range(nd)]
    pixels = [rng.randint(0, 16) / 16.0 for _ in range(int(np.prod(shape)))]
    what = rng.choice(["equal", "larger", "one-axis", "even", "even-one-axis", "badlen-lshort",
                       "badlen-llong", "just-below", "llong1", "valid", "clash-and-even"])
    m = rng.choice([3, 5, 7])
    if what == "equal":
        ls, ll = float(m), m
    elif what == "larger":
        ls, ll = m + rng.choice([0.5, 1, 2]), m
    elif what == "one-axis":
        a = rng.randrange(nd)
        ls = [1.0] * nd
        ll = [5] * nd
        ls[a] = rng.choice([5.0, 5.5, 6.0])
    elif what == "even":
        ls, ll = 1.0, rng.choice([2, 4, 6])
    elif what == "even-one-axis":
        ls = 1.0
        ll = [5] * nd
        ll[rng.randrange(nd)] = rng.choice([2, 4, 6])
    elif what == "badlen-lshort":
        ls, ll = [1.0] * (nd + rng.choice([-1, 1])), 5
    elif what == "badlen-llong":
        ls, ll = 1.0, [5] * (nd + rng.choice([-1, 1]))
    elif what == "just-below":
        ls, ll = m - rng.choice([0.5, 0.25]), m
    elif what == "llong1":
        ls, ll = rng.choice([0, 0.5, 0.25]), 1
    elif what == "clash-and-even":
        ls, ll = 4.0, 4
    else:
        ls, ll = 1.0, m
    return dict(stream="reject", what=what, shape=shape, pixels=pixels, kind="grid", dtype="float64",
                layout="C", lshort=ls, llong=ll, threshold=rng.choice([None, 0.0, 0.125]),
                truncate=rng.choice([2, 4]), lin_c=2.0, perm=list(range(nd))[::-1])


def gen_cases(ctx):
    for inp in ctx.corpus():
        yield inp
    for i in range(ctx.n(60, 600)):
        yield gen_tie(ctx.rng("tie", i))
    for i in range(ctx.n(150, 1500)):
        yield gen_reject(ctx.rng("reject", i))
    for i in range(ctx.n(600, 15000)):
        yield gen_bp(ctx.rng("bp", i), ctx.thorough)


# ------------------------------------------------------------------------------------------
# running one case

def build_image(inp):
    """returns (image view handed to trackpy, base array whose bytes are watched)"""
    shape = tuple(inp["shape"])
    dt = np.float32 if inp.get("dtype") == "float32" else np.float64
    a = np.array(inp["pixels"], dtype=dt).reshape(shape)
    layout = inp.get("layout", "C")
    if layout == "F":
        base = np.asfortranarray(a)
        return base, base
    if layout == "strided":
        base = np.full(tuple(2 * s + 1 for s in shape), 7.0, dtype=dt)
        sl = tuple(slice(1, 2 * s + 1, 2) for s in shape)
        base[sl] = a
        return base[sl], base
    if layout == "reversed":
        base = np.ascontiguousarray(a[tuple(slice(None, None, -1) for _ in shape)])
        return base[tuple(slice(None, None, -1) for _ in shape)], base
    base = np.ascontiguousarray(a)
    return base, base


def as_tuple(v, nd):
    return list(v) if isinstance(v, (list, tuple)) else [v] * nd


def perm_param(v, perm):
    return [v[p] for p in perm] if isinstance(v, (list, tuple)) else v


def call(fn, *args, **kw):
    try:
        return "ok", fn(*args, **kw)
    except ValueError as e:
        return "reject", str(e)
    except Exception as e:  # anything else is not a documented refusal
        return "crash", "%s: %s" % (type(e).__name__, e)


def parse_arr(resp, shape):
    """driver 'ok a,b,c' -> (list of Fractions, float array)"""
    body = resp[3:].strip()
    fr = [Fraction(t) for t in body.split(",")] if body else []
    return fr, np.array([float(f) for f in fr], dtype=np.float64).reshape(shape)


def fields(inp, nd):
    rs = common.rat_str
    ls, ll, tr = inp["lshort"], inp["llong"], inp["truncate"]
    lst = as_tuple(ls, nd)
    llt = as_tuple(ll, nd)
    kern = []
    for s in lst:
        kern.append(",".join(rs(v) for v in kernel_frac(float(s), tr)) if s > 0 else "1")
    return (",".join(rs(float(s)) for s in lst), ";".join(kern), ",".join(str(int(m)) for m in llt))


def statement_verdict(ls, ll, nd):
    """what the statement says about the arguments: 'reject' (some lshort >= llong), 'accept' (all
    lshort < llong, llong odd positive, one value per axis), None (outside the statement)"""
    lst, llt = as_tuple(ls, nd), as_tuple(ll, nd)
    if len(lst) != nd or len(llt) != nd:
        return None
    if any(s >= m for s, m in zip(lst, llt)):
        return "reject"
    if all(int(m) % 2 == 1 and m >= 1 for m in llt) and all(s >= 0 for s in lst):
        return "accept"
    return None


def close_mask(a, b, tol):
    return np.abs(np.asarray(a, dtype=np.float64) - np.asarray(b, dtype=np.float64)) <= tol


def run_case(ctx, inp):
    from trackpy.preprocessing import bandpass, lowpass, boxcar
    res = Result()
    shape = tuple(inp["shape"])
    nd = len(shape)
    img, base = build_image(inp)
    before = base.tobytes()
    meta_before = (img.shape, img.strides, img.dtype, img.flags.writeable)
    ls, ll, thr, tr = inp["lshort"], inp["llong"], inp["threshold"], inp["truncate"]
    stream = inp.get("stream", "bp")
    res.stat("stream_" + stream)
    res.stat("ndim_%d" % nd)
    sig = dict(stream=stream)

    for s in as_tuple(ls, nd):
        if s > 0 and radius(s, tr) != radius_exact(s, tr):
            res.borderline = True
            res.stat("radius_ambiguous")
            return res

    st, out = call(bandpass, img, ls, ll, thr, tr)
    untouched = (base.tobytes() == before and
                 (img.shape, img.strides, img.dtype, img.flags.writeable) == meta_before)
    if not untouched:
        res.violation("property-violation", "bandpass modified its input array", impl=st,
                      signature=dict(sig, what="input-modified", fn="bandpass"))
        img, base = build_image(inp)

    f_ls, f_k, f_ll = fields(inp, nd)
    f_sh = ",".join(str(s) for s in shape)
    f_px = ",".join(common.rat_str(float(v)) for v in np.asarray(img).ravel(order="C"))
    f_thr = "d" if thr is None else common.rat_str(float(thr))
    m_bp = ctx.ask("BP %s | %s | %s | %s | %s | %s" % (f_sh, f_ls, f_k, f_ll, f_thr, f_px))
    if not (m_bp.startswith("ok") or m_bp.startswith("err=")):
        raise RuntimeError("driver: %r" % m_bp[:200])
    m_rej = m_bp.startswith("err=")

    # ---- rejection --------------------------------------------------------------------------
    verdict = statement_verdict(ls, ll, nd)
    res.stat("statement_" + str(verdict))
    if st == "crash":
        res.violation("property-violation", "bandpass raised %s" % out, impl=out,
                      model=m_bp[:60], signature=dict(sig, what="unexpected-exception"))
        return res
    if verdict == "reject" and st != "reject":
        res.violation("property-violation",
                      "lshort=%r >= llong=%r was accepted" % (ls, ll), impl=st, model=m_bp[:40],
                      signature=dict(sig, what="noise>=smoothing-accepted"))
    if verdict == "accept" and st == "reject":
        res.violation("property-violation",
                      "valid arguments lshort=%r llong=%r rejected: %s" % (ls, ll, out), impl=out,
                      model=m_bp[:40], signature=dict(sig, what="spurious-reject"))
    if (st == "reject") != m_rej:
        if not res.viol:
            res.violation("correspondence-break",
                          "implementation %s, model %s for lshort=%r llong=%r"
                          % (st, m_bp[:40], ls, ll), impl=st, model=m_bp[:40],
                          broken="Bandpass.bandpass validation (bandpass_ok_iff)",
                          signature=dict(sig, what="reject-differs"))
        return res
    if st == "reject":
        res.stat("rejected_" + m_bp[4:])
        res.nontrivial = True
        return res
    if res.viol:
        return res

    # ---- accepted: values ---------------------------------------------------------------------
    res.stat("dtype_" + str(img.dtype))
    res.stat("layout_" + inp.get("layout", "C"))
    res.stat("kind_" + inp.get("kind", "?"))
    res.stat("truncate_%s" % tr)
    res.stat("thr_" + ("default" if thr is None else "zero" if thr == 0 else
                       "neg" if thr < 0 else "pos"))
    res.stat("lshort_per_axis" if isinstance(ls, list) else "lshort_scalar")
    res.stat("llong_per_axis" if isinstance(ll, list) else "llong_scalar")
    lst, llt = as_tuple(ls, nd), as_tuple(ll, nd)
    if any(2 * radius(s, tr) + 1 > n for s, n in zip(lst, shape) if s > 0) or \
            any(m > n for m, n in zip(llt, shape)):
        res.stat("image_smaller_than_kernel")
    if any(s <= 0 for s in lst):
        res.stat("axis_without_lowpass")
    if any(m <= 1 for m in llt):
        res.stat("axis_without_boxcar")
    thr_eff = (1 / 255.) if thr is None else float(thr)
    maxabs = float(np.max(np.abs(img))) if img.size else 0.0
    tol = (TOL32 if img.dtype == np.float32 else TOL64) * max(maxabs, 1e-300)

    out = np.asarray(out)
    if out.shape != shape:
        res.violation("property-violation", "result shape %s != input shape %s" % (out.shape, shape),
                      impl=list(out.shape), signature=dict(sig, what="shape"))
        return res

    # model pieces
    m_low = ctx.ask("LOW %s | %s | %s | %s" % (f_sh, f_ls, f_k, f_px))
    m_box = ctx.ask("BOX %s | %s | %s" % (f_sh, f_ll, f_px))
    if not (m_low.startswith("ok") and m_box.startswith("ok")):
        raise RuntimeError("driver: %r / %r" % (m_low[:100], m_box[:100]))
    low_fr, low_m = parse_arr(m_low, shape)
    box_fr, box_m = parse_arr(m_box, shape)
    out_fr, out_m = parse_arr(m_bp, shape)
    d_fr = [a - b for a, b in zip(low_fr, box_fr)]
    d_m = np.array([float(f) for f in d_fr], dtype=np.float64).reshape(shape)
    thr_fr = Fraction(1, 255) if thr is None else Fraction(float(thr))

    # implementation pieces (also: they must leave the input alone)
    st_l, low_i = call(lowpass, img, ls, tr)
    if base.tobytes() != before:
        res.violation("property-violation", "lowpass modified its input array", impl=st_l,
                      signature=dict(sig, what="input-modified", fn="lowpass"))
        return res
    st_b, box_i = call(boxcar, img, ll)
    if base.tobytes() != before:
        res.violation("property-violation", "boxcar modified its input array", impl=st_b,
                      signature=dict(sig, what="input-modified", fn="boxcar"))
        return res
    if st_l != "ok" or st_b != "ok":
        res.violation("correspondence-break", "lowpass/boxcar raised where bandpass did not: %s %s"
                      % (low_i if st_l != "ok" else "", box_i if st_b != "ok" else ""),
                      impl=[st_l, st_b], broken="Bandpass.lowpass / Bandpass.boxcar",
                      signature=dict(sig, what="helper-raises"))
        return res
    d_i = np.asarray(low_i, dtype=np.float64) - np.asarray(box_i, dtype=np.float64)

    # oracle
    low_o = oracle_lowpass(img, lst, tr)
    box_o = oracle_boxcar(img, llt)
    d_o = low_o - box_o

    def judge(d_ref, exact=None):
        """per pixel: is the implementation's value an acceptable rendering of clip(d_ref)?"""
        keep = d_ref >= thr_eff
        expect = np.where(keep, d_ref, 0.0)
        ok = close_mask(out, expect, tol)
        near = np.abs(d_ref - thr_eff) <= tol
        either = near & (close_mask(out, d_ref, tol) | (out == 0))
        return ok | either, near

    ok_o, near_o = judge(d_o)
    ok_m, near_m = judge(d_m)
    # exact ties: float difference == threshold == exact model value -> "below threshold" is false,
    # the value must be kept
    flat_out = out.ravel()
    flat_di = d_i.ravel()
    n_ties = 0
    if img.dtype == np.float64:
        for p in np.nonzero(flat_di == thr_eff)[0]:
            if d_fr[p] == thr_fr and Fraction(float(flat_di[p])) == d_fr[p]:
                n_ties += 1
                if flat_out[p] != thr_eff:
                    res.violation("property-violation",
                                  "pixel %d: unclipped value equals the threshold %r exactly but "
                                  "the output is %r (only values BELOW the threshold may be zeroed)"
                                  % (p, thr_eff, float(flat_out[p])), impl=float(flat_out[p]),
                                  model=str(out_fr[p]), signature=dict(sig, what="tie-zeroed"))
                    break
    res.stat("exact_ties", n_ties)
    n_border = int(np.count_nonzero(near_m)) if abs(thr_eff) > tol else 0
    res.stat("pixels", int(out.size))
    res.stat("borderline_pixels", n_border)
    if n_border:
        res.borderline = True

    if not ok_o.all():
        p = int(np.argmin(ok_o.ravel()))
        res.violation("property-violation",
                      "pixel %d: bandpass gives %r, the documented filter gives %r (unclipped %r, "
                      "threshold %r, tol %.3g)" % (p, float(flat_out[p]),
                                                   float(np.where(d_o >= thr_eff, d_o, 0).ravel()[p]),
                                                   float(d_o.ravel()[p]), thr_eff, tol),
                      impl=float(flat_out[p]), model=str(out_fr[p]),
                      signature=dict(sig, what="value", ndim=nd))
    elif not ok_m.all():
        p = int(np.argmin(ok_m.ravel()))
        res.violation("correspondence-break",
                      "pixel %d: bandpass gives %r, model %r (oracle agrees with the implementation)"
                      % (p, float(flat_out[p]), float(out_m.ravel()[p])), impl=float(flat_out[p]),
                      model=str(out_fr[p]), broken="Bandpass.bandpass (bandpass_pixel)",
                      signature=dict(sig, what="value-model", ndim=nd))
    # model's clipping is the model's own diff clipped (guards the harness decoding)
    chk = [(d if d >= thr_fr else 0) for d in d_fr]
    if chk != out_fr:
        raise RuntimeError("driver BP output is not clip(LOW - BOX)")

    # lowpass / boxcar separately
    for name, vi, vm, vo in (("lowpass", low_i, low_m, low_o), ("boxcar", box_i, box_m, box_o)):
        vi = np.asarray(vi)
        if vi.shape != shape:
            res.violation("correspondence-break", "%s result shape %s" % (name, vi.shape),
                          impl=list(vi.shape), broken="Bandpass." + name,
                          signature=dict(sig, what="helper-shape", fn=name))
            continue
        bad_m = ~close_mask(vi, vm, tol)
        if bad_m.any():
            p = int(np.argmax(bad_m.ravel()))
            res.violation("correspondence-break",
                          "%s pixel %d: implementation %r, model %r, oracle %r"
                          % (name, p, float(vi.ravel()[p]), float(vm.ravel()[p]),
                             float(vo.ravel()[p])), impl=float(vi.ravel()[p]),
                          model=float(vm.ravel()[p]), broken="Bandpass." + name,
                          signature=dict(sig, what="helper-value", fn=name))
        if (~close_mask(vm, vo, tol)).any():
            raise RuntimeError("model %s and numpy oracle disagree" % name)

    # ---- direct checks from the statement ------------------------------------------------------
    if thr_eff >= 0 and (out < 0).any():
        res.violation("property-violation", "negative output %r with threshold %r"
                      % (float(out.min()), thr_eff), impl=float(out.min()),
                      signature=dict(sig, what="negative"))
    if ((out != 0) & (out < thr_eff)).any():
        v = out[(out != 0) & (out < thr_eff)]
        res.violation("property-violation", "output %r is neither 0 nor >= threshold %r"
                      % (float(v[0]), thr_eff), impl=float(v[0]),
                      signature=dict(sig, what="below-threshold-kept"))

    # linearity: bandpass(c*img, c*thr) == c*bandpass(img, thr)
    c = float(inp.get("lin_c", 2.0))
    img_c = (img * img.dtype.type(c)).astype(img.dtype)
    st_c, out_c = call(bandpass, img_c, ls, ll, c * thr_eff, tr)
    if st_c != "ok":
        res.violation("property-violation", "bandpass(c*img) raised: %s" % out_c, impl=out_c,
                      signature=dict(sig, what="linearity-raises"))
    else:
        okc = close_mask(out_c, c * out, 4 * c * tol) | near_m | near_o | \
            (np.abs(d_i - thr_eff) <= 4 * tol)
        if not okc.all():
            p = int(np.argmin(okc.ravel()))
            res.violation("property-violation",
                          "linearity: pixel %d: bandpass(%g*img, %g*thr) = %r but %g*bandpass = %r"
                          % (p, c, c, float(np.asarray(out_c).ravel()[p]), c,
                             c * float(flat_out[p])), impl=float(np.asarray(out_c).ravel()[p]),
                          model=c * float(flat_out[p]), signature=dict(sig, what="linearity"))
        res.stat("linearity_checked")

    # transposition: bandpass(img^T, params^T) == bandpass(img, params)^T
    perm = inp.get("perm") or list(range(nd))[::-1]
    st_t, out_t = call(bandpass, img.transpose(perm), perm_param(ls, perm), perm_param(ll, perm),
                       thr, tr)
    if st_t != "ok":
        res.violation("property-violation", "bandpass(transposed) raised: %s" % out_t, impl=out_t,
                      signature=dict(sig, what="transpose-raises"))
    else:
        okt = (np.asarray(out_t).shape == out.transpose(perm).shape)
        if okt:
            nr = (near_m | near_o | (np.abs(d_i - thr_eff) <= 4 * tol)).transpose(perm)
            okt = (close_mask(out_t, out.transpose(perm), 4 * tol) | nr).all()
        if not okt:
            res.violation("property-violation",
                          "transposition %s: bandpass(img^T) != bandpass(img)^T" % (perm,),
                          impl=list(np.asarray(out_t).shape),
                          signature=dict(sig, what="transpose", ndim=nd))
        res.stat("transpose_checked")
    if base.tobytes() != before:
        res.violation("property-violation", "input modified by a later call",
                      signature=dict(sig, what="input-modified", fn="bandpass"))

    # model transposition op against numpy (2-D; guards `transpose2` of the theorem)
    if nd == 2 and out.size <= 200:
        r = ctx.ask("TR2 %d %d | %s" % (shape[0], shape[1], f_px))
        _, tm = parse_arr(r, (shape[1], shape[0]))
        if not np.array_equal(tm, np.asarray(img, dtype=np.float64).T):
            raise RuntimeError("model transpose2 is not the transpose")

    # model axis exchange (`swapImg`, the witness of `IsSwap` in bandpass_swap_axes) against numpy
    if out.size <= 200:
        a64 = np.asarray(img, dtype=np.float64)
        for k in range(nd - 1):
            r = ctx.ask("SWAP %d | %s | %s" % (k, f_sh, f_px))
            shp = list(shape)
            shp[k], shp[k + 1] = shp[k + 1], shp[k]
            _, sm = parse_arr(r, tuple(shp))
            if not np.array_equal(sm, np.swapaxes(a64, k, k + 1)):
                raise RuntimeError("model swapImg %d is not numpy.swapaxes" % k)
            res.stat("swapImg_checked")

    kept = int(np.count_nonzero(out > 0))
    zeroed = int(np.count_nonzero((out == 0) & (d_m != 0)))
    active = any(s > 0 and radius(s, tr) > 0 for s in lst) and any(m > 1 for m in llt)
    res.stat("kept_pixels", kept)
    res.stat("zeroed_pixels", zeroed)
    res.nontrivial = bool(active and kept > 0 and zeroed > 0)
    if res.nontrivial and not res.viol and out.size <= 30:
        res.sample = dict(input=dict(shape=list(shape), lshort=ls, llong=ll, threshold=thr,
                                     truncate=tr, pixels=inp["pixels"]),
                          implementation=[float(v) for v in flat_out],
                          model=[str(f) for f in out_fr])
    return res
