"""C15 — the least-squares objective's gradient and parameter packing are exact.

Two streams:
  pack : `vect_from_params` / `vect_to_params` on integer-valued arrays against the Lean model
         (`PACK` / `UNPACK`, exact integers; theorems `unpack_pack`, `pack_unpack`, `packedLen_eq`,
         `packSum_adjoint` of Props/C15 are about these very definitions).  The family
         modes in {0,1,2,3}^k (k<=4; thorough k<=5) x n<=4 features x {groups=None, every set partition} is
         enumerated exhaustively; a random stream adds custom modes 4,5, shuffled / non-covering
         groups and missing group lists (ValueError <-> `none`).
         Direct oracle (from the statement, model-free): pack(unpack(v)) == v for every vector of
         the right length, unpack(pack(p)) == p for p consistent with its modes.
  grad : `FitFunctions(...).get_residual` on random sub-images (2-D/3-D, iso/anisotropic,
         gauss/ring, every param_mode over {const,var,global,cluster}, 1-4 features, 1-3
         clusters): the code's residual(v) and jacobian(v) against the Float instance (`LSQ`) of the
         generic formulas whose real instance is proved to be the derivative (Props/C15
         `residual_grad*`).  Direct oracle (model-free): Richardson central differences of the
         code's own residual against its jacobian, tolerance relative to the gradient norm.
  reuse: "the gradient equals the derivative of the residual at EVERY vector" makes residual and
         jacobian functions of the VALUE of the vector alone.  Three (residual, jacobian) pairs
         live side by side -- two closures of one FitFunctions object over different sub-images and
         one of a second, different FitFunctions object -- and a scripted walk calls them in random
         interleaving and order (jacobian first / residual first) on: one persistent ndarray that
         is updated IN PLACE between calls (whole-vector step, single-component poke, poke undone),
         the same object unmodified, a persistent strided view updated in place, reversed views,
         read-only arrays, float32 and longdouble vectors, fresh copies.  Direct oracle (model-free): every
         recorded answer must equal the answer of a FRESHLY built pair (new FitFunctions, copies of
         all arrays) on a fresh float64 copy of the vector as it was at the time of the call;
         recorded jacobians additionally against Richardson central differences of the paired
         residual evaluated on fresh copies; the caller's vector and the arrays handed to
         get_residual must be bit-identical afterwards.
  The pack stream also demands: inputs of vect_from_params / vect_to_params unchanged, results not
  sharing memory with them, the same call repeated later gives the same answer.
"""
import copy
import itertools
import struct
import warnings

import numpy as np

from . import common
from .common import Result

PROP = "C15"
RULE = ("pack stream: exhaustive family modes in {0,1,2,3}^k, k<=4 (thorough: k<=5), n<=4 features, groups=None and every set partition of the features, "
        "distinct integer entries; random stream with modes up to 5, shuffled and non-covering "
        "groups, missing group lists.  Non-trivial = at least one shared (global/grouped) column "
        "and n>=2.  grad stream: random sub-images with 1-4 features in 1-3 clusters, random "
        "param_mode over {const,var,global,cluster} for every parameter, random admissible vector; "
        "non-trivial = at least 2 features or a shared parameter, gradient norm > 0.  reuse stream: "
        "three (residual, jacobian) pairs (two closures of one FitFunctions object, one of another) "
        "from grad-stream inputs, scripted walk of 9-17 calls over {in-place step, poke, undo, same "
        "object again, persistent strided view, reversed view, read-only, float32, longdouble, fresh copy}; "
        "non-trivial = an in-place update changed the answer on the reused object and >= 2 "
        "features or a shared parameter.  Distinct = distinct canonical input.")
ASSUMPTIONS = [
    "gradient mirror: float64 in both (Lean `Float` = C double, same libm exp/sqrt up to 1 ulp); "
    "residual and every jacobian component compared with tolerance 1e-9 relative to the residual "
    "/ to the largest gradient component (summation order differs: np.nansum is pairwise)",
    "finite-difference oracle: Richardson-extrapolated central differences with steps 2e-4 and "
    "1e-4 (times max(1,|v_m|)); accepted when |fd - jac| <= 1e-5 * max|jac| + 1e-9; cases in which a "
    "ring pixel is within 0.02 of the NaN cut dist == 1 are resampled (the objective is "
    "discontinuous there: the pixel enters/leaves the sum), counted borderline if none is found",
    "the set of contributing pixels (masks, NaN cut of the _safe r2 variants, safe_exp underflow "
    "cut) is held fixed in the theorems; the mirror recomputes it with the same float tests",
    "disc and inv_series have no analytic jacobian in the code (has_jacobian False): out of scope",
    "reuse stream: answers compared with a freshly built pair on a float64 copy of the vector with "
    "relative tolerance 1e-12 (residual) / 1e-12 * max|jac| (jacobian) -- same arithmetic on equal "
    "values, the tolerance only guards against alignment-dependent SIMD summation; float32 / longdouble "
    "vectors stand for their float64 values; the finite-difference audit (same steps and tolerance "
    "as the grad stream) is skipped for ring vectors within 0.02 of the NaN cut",
    "custom modes >= 4 are exercised for packing only; the gradient statement is quantified over "
    "{const,var,global,cluster} (the code reads the background of a cluster from its first "
    "feature, which is only meaningful when the background is shared per cluster or coarser)",
]
MIN_NONTRIVIAL = 20

GEOS = [(2, True), (2, False), (3, True), (3, False)]      # driver code = index
FNS = ["gauss", "ring"]


def init(ctx):
    common.setup_repo_path()
    warnings.filterwarnings("ignore")


# ------------------------------------------------------------------------------------------------
# helpers

def f2b(x):
    return struct.unpack("<Q", struct.pack("<d", float(x)))[0]


def b2f(b):
    return struct.unpack("<d", struct.pack("<Q", int(b)))[0]


def enc_groups(groups):
    if groups is None:
        return [0]
    out = [1, len(groups)]
    for gl in groups:
        out.append(len(gl))
        for g in gl:
            out.append(len(g))
            out.extend(int(j) for j in g)
    return out


def set_partitions(items):
    items = list(items)
    if not items:
        yield []
        return
    first, rest = items[0], items[1:]
    for part in set_partitions(rest):
        yield [[first]] + part
        for i in range(len(part)):
            yield part[:i] + [[first] + part[i]] + part[i + 1:]


def py_packed_len(n, modes, groups):
    """length of the vector, from the docstring of vect_from_params (independent of the model)"""
    tot = 0
    for m in modes:
        if m == 0:
            continue
        elif m == 1:
            tot += n
        elif m == 2 or groups is None:
            tot += 1
        else:
            tot += len(groups[m - 3])
    return tot


# ------------------------------------------------------------------------------------------------
# generation

def gen_cases(ctx):
    for inp in ctx.corpus():
        yield inp
    # ---- exhaustive packing family
    kmax = 5 if ctx.thorough else 4
    for n in (1, 2, 3, 4):
        groupings = [None] + [[p] for p in set_partitions(range(n))]
        for gi, groups in enumerate(groupings):
            for k in range(1, kmax + 1):
                for modes in itertools.product(range(4), repeat=k):
                    yield dict(stream="pack", family="exh", n=n, modes=list(modes), groups=groups,
                               seed=(n * 1000 + gi) * 7 + k)
    # ---- random packing stream: custom modes, shuffled / partial / missing groups
    for i in range(ctx.n(600, 20000)):
        rng = ctx.rng("packrnd", i)
        n = rng.randint(1, 6)
        k = rng.randint(1, 6)
        nlists = rng.choice([0, 1, 1, 2, 3])
        groups = []
        for _ in range(nlists):
            feats = list(range(n))
            rng.shuffle(feats)
            if rng.random() < 0.3:
                feats = feats[:rng.randint(1, n)]           # not covering
            gl, cur = [], []
            for j in feats:
                cur.append(j)
                if rng.random() < 0.5:
                    gl.append(cur)
                    cur = []
            if cur:
                gl.append(cur)
            groups.append(gl)
        if rng.random() < 0.15:
            groups = None
        modes = [rng.choice([0, 1, 2, 3, 3, 4, 5]) for _ in range(k)]
        yield dict(stream="pack", family="rnd", n=n, modes=modes, groups=groups, seed=i)
    # ---- gradient stream
    for i in range(ctx.n(600, 10000)):
        rng = ctx.rng("grad", i)
        yield gen_grad(rng, i)
    # ---- reuse stream: state that survives between calls
    for i in range(ctx.n(400, 6000)):
        rng = ctx.rng("reuse", i)
        yield gen_reuse(rng, i)


MODE_NAMES = ["const", "var", "global", "cluster"]


def gen_grad(rng, i):
    ndim, iso = GEOS[i % 4] if i < 64 else rng.choice(GEOS)
    fn = FNS[(i // 4) % 2] if i < 64 else rng.choice(FNS)
    n = rng.randint(1, 4) if ndim == 2 else rng.randint(1, 3)
    ncl = rng.randint(1, min(3, n))
    # clusters: random surjection of features onto clusters, as lists of indices
    while True:
        lab = [rng.randrange(ncl) for _ in range(n)]
        if len(set(lab)) == ncl:
            break
    clusters = [[j for j in range(n) if lab[j] == c] for c in range(ncl)]
    if rng.random() < 0.3:
        rng.shuffle(clusters)
    use_groups = True
    if ncl == 1 and rng.random() < 0.5:
        use_groups = False                # groups=None: one cluster, mode 3 behaves like global
    pos = ["z", "y", "x"][-ndim:]
    size_cols = ["size"] if iso else ["size_" + c for c in pos]
    names = ["background", "signal"] + pos + size_cols + (["thickness"] if fn == "ring" else [])
    style = rng.random()
    pm = {}
    for nm in names:
        if style < 0.15:
            continue                       # defaults of the code
        if style < 0.3:
            pm[nm] = "var" if nm != "background" else rng.choice(["cluster", "global", "var"])
        else:
            pm[nm] = rng.choice(MODE_NAMES)
    # the same request in the other spellings the API accepts: integer mode codes (MODE_DICT), and
    # the broadcast keys 'pos' / 'size' for the per-axis columns
    codes = {"const": 0, "var": 1, "global": 2, "cluster": 3}
    sp = rng.random()
    if sp < 0.25:
        pm = {k: codes[v] for k, v in pm.items()}
    elif sp < 0.35:
        pm = {k: (codes[v] if rng.random() < 0.5 else v) for k, v in pm.items()}
    if rng.random() < 0.2 and all(c in pm for c in pos) and len({pm[c] for c in pos}) == 1:
        v = pm[pos[0]]
        for c in pos:
            del pm[c]
        pm["pos"] = v
    if not iso and rng.random() < 0.2 and all(c in pm for c in size_cols) and len({pm[c] for c in size_cols}) == 1:
        v = pm[size_cols[0]]
        for c in size_cols:
            del pm[c]
        pm["size"] = v
    return dict(stream="grad", ndim=ndim, iso=iso, fn=fn, n=n, clusters=clusters,
                use_groups=use_groups, param_mode=pm, npseed=rng.randrange(2 ** 31),
                small_size=rng.random() < 0.25, norm=rng.choice([1.0, 1.0, 37.5, 1e4]),
                # exact special values inside the bounds: a background of exactly 0 (the default a
                # table without a background column gets; it stays 0 when the mode is const) and a
                # NEGATIVE ring thickness (shape parameters have no default bound)
                bg_zero=rng.random() < 0.15, neg_thickness=(fn == "ring" and rng.random() < 0.3))


VEC_KINDS = ["inplace", "inplace", "inplace", "poke", "poke", "undo", "same", "same", "strided", "strided",
             "reversed", "readonly", "f32", "longdouble", "fresh"]
# fixed prologue: every order of (residual, jacobian) around an in-place update of the same object
PROLOGUE = [["A", "jac", "fresh0"], ["A", "jac", "inplace"], ["A", "res", "same"], ["A", "res", "inplace"],
            ["A", "jac", "same"], ["A", "jac", "poke"], ["A", "res", "undo"]]


def gen_reuse(rng, i):
    a = gen_grad(rng, i)
    b = gen_grad(rng, i + 1 + rng.randrange(7))
    script = [list(op) for op in PROLOGUE]
    for _ in range(rng.randint(2, 10)):
        script.append([rng.choice("AAACCB"), rng.choice(["res", "jac"]), rng.choice(VEC_KINDS)])
    return dict(stream="reuse", a=a, b=b, script=script, wseed=rng.randrange(2 ** 31))


# ------------------------------------------------------------------------------------------------
# packing stream

OPS = [("first", None, 0), ("sum", np.sum, 1), ("min", np.min, 2), ("max", np.max, 3)]


def impl_pack(P, modes, groups, op):
    from trackpy.refine.least_squares import vect_from_params
    try:
        out = vect_from_params(np.array(P, dtype=np.float64).reshape(len(P), len(modes)),
                               np.array(modes), groups, operation=op)
    except ValueError as e:
        return None
    return [common.frac(float(x)) for x in out]


def impl_unpack(v, P, modes, groups):
    from trackpy.refine.least_squares import vect_to_params
    try:
        out = vect_to_params(np.array(v, dtype=np.float64),
                             np.array(P, dtype=np.float64).reshape(len(P), len(modes)),
                             np.array(modes), groups)
    except ValueError:
        return None
    return [[common.frac(float(x)) for x in row] for row in out]


def model_pack(ctx, opcode, n, modes, groups, P):
    k = len(modes)
    cols = [int(P[i][j]) for j in range(k) for i in range(n)]
    toks = [opcode, n, k] + list(modes) + enc_groups(groups) + cols
    r = ctx.ask("PACK " + " ".join(map(str, toks)))
    if r == "none":
        return None, None
    m = common.kv(r)
    v = [int(x) for x in m["v"].split(",")] if m.get("v") not in (None, True, "") else []
    return v, m


def model_unpack(ctx, n, modes, groups, P, v):
    k = len(modes)
    cols = [int(P[i][j]) for j in range(k) for i in range(n)]
    toks = [n, k] + list(modes) + enc_groups(groups) + cols + [len(v)] + [int(x) for x in v]
    r = ctx.ask("UNPACK " + " ".join(map(str, toks)))
    if r == "none":
        return None, None
    m = common.kv(r)
    cs = [[int(x) for x in c.split(",")] for c in m["cols"].split(";")]
    rows = [[cs[j][i] for j in range(k)] for i in range(n)]
    return rows, m


def make_consistent(P, n, modes, groups):
    """independent construction of an array consistent with its modes: shared columns constant on
    the sets that share them"""
    Q = [list(r) for r in P]
    for j, m in enumerate(modes):
        if m in (0, 1):
            continue
        if m == 2 or groups is None:
            for i in range(n):
                Q[i][j] = P[0][j]
        else:
            for g in groups[m - 3]:
                for i in g:
                    Q[i][j] = P[g[0]][j]
    return Q


def same_bits(a, b):
    a, b = np.asarray(a), np.asarray(b)
    return a.shape == b.shape and a.dtype == b.dtype and a.tobytes() == b.tobytes()


def check_pack_purity(res, P, modes, groups, v, sig):
    """inputs unchanged, outputs own their memory, layout / dtype of the inputs irrelevant, the same
    call repeated later answers the same (all values are small integers: exact in float32 too)"""
    from trackpy.refine.least_squares import vect_from_params, vect_to_params
    n, k = len(P), len(modes)
    Pa = np.array(P, dtype=np.float64).reshape(n, k)
    Ma = np.array(modes)
    ga = copy.deepcopy(groups)
    va = np.array(v, dtype=np.float64)
    P0, M0, v0 = Pa.copy(), Ma.copy(), va.copy()
    res.stat("pack_purity_cases")

    def bad(what, msg):
        res.violation("property-violation", msg + " (n=%d modes=%s groups=%s)" % (n, modes, groups),
                      signature=dict(sig, what=what))

    def inputs_ok(fn):
        if not (same_bits(Pa, P0) and same_bits(Ma, M0) and same_bits(va, v0) and ga == groups):
            bad("input-modified", "%s modified one of its arguments" % fn)
            return False
        return True
    first = {}
    for rnd in range(2):
        for name, op in (("first", None), ("mean", np.mean)):
            out = vect_from_params(Pa, Ma, ga, operation=op)
            if not inputs_ok("vect_from_params(op=%s)" % name):
                return
            if np.shares_memory(out, Pa):
                bad("aliasing", "vect_from_params(op=%s) returns memory of `params`" % name)
                return
            key = ("pack", name)
            if key in first and not same_bits(first[key], out):
                bad("repeat-differs", "vect_from_params(op=%s) repeated on the same arguments: %s then %s"
                    % (name, first[key].tolist(), out.tolist()))
                return
            first.setdefault(key, out.copy())
            out[...] = -7777.0                     # the caller may do what it wants with the result
        u = vect_to_params(va, Pa, Ma, ga)
        if not inputs_ok("vect_to_params"):
            return
        if np.shares_memory(u, Pa) or np.shares_memory(u, va):
            bad("aliasing", "vect_to_params returns memory of its arguments (documented: not inplace)")
            return
        if "unpack" in first and not same_bits(first["unpack"], u):
            bad("repeat-differs", "vect_to_params repeated on the same arguments differs")
            return
        first.setdefault("unpack", u.copy())
        u[...] = -7777.0
    # layout / dtype of the arguments
    L = len(va)
    big = np.zeros(3 * L + 1)
    sv = big[1::3][:L]
    sv[:] = va
    variants = [("strided vect", sv, Pa), ("reversed-view vect", va[::-1].copy()[::-1], Pa),
                ("float32 vect", va.astype(np.float32), Pa), ("Fortran-ordered params", va, np.asfortranarray(Pa)),
                ("params as a column slice of a wider array",
                 va, np.concatenate([Pa, Pa + 1000.0], axis=1)[:, :k])]
    for label, vv, PP in variants:
        u = vect_to_params(vv, PP, Ma, ga)
        if not np.array_equal(np.asarray(u, dtype=np.float64), first["unpack"]):
            bad("layout-dependent", "vect_to_params with %s differs: %s vs %s"
                % (label, np.asarray(u).tolist(), first["unpack"].tolist()))
            return
        for name, op in (("first", None), ("mean", np.mean)):
            o = vect_from_params(PP, Ma, ga, operation=op)
            if not np.array_equal(np.asarray(o, dtype=np.float64), first[("pack", name)]):
                bad("layout-dependent", "vect_from_params(op=%s) with %s differs" % (name, label))
                return
    # pack(unpack(v)) = v for EVERY vector, whatever the dtype of the start parameters: a vector of
    # non-integers (not representable in single precision either) through integer / float32 params
    vh = va + 0.5 + 2.0 ** -30
    for label, PP in (("int64 start parameters", Pa.astype(np.int64)),
                      ("float32 start parameters", Pa.astype(np.float32))):
        u = vect_to_params(vh, PP, Ma, ga)
        back = np.asarray(vect_from_params(u, Ma, ga, operation=None), dtype=np.float64)
        if back.shape != vh.shape or not np.array_equal(back, vh):
            bad("unpack-truncates", "pack(unpack(v)) != v with %s: v = %s, came back as %s"
                % (label, vh.tolist()[:6], back.tolist()[:6]))
            return
    res.stat("pack_lossless_other_dtypes")
    res.stat("pack_purity_variants", len(variants))


def run_pack_case(ctx, inp):
    res = Result()
    n, modes, groups = inp["n"], inp["modes"], inp["groups"]
    k = len(modes)
    rs = np.random.RandomState(inp.get("seed", 0) % (2 ** 31))
    vals = rs.permutation(np.arange(-60, 61))[: n * k] if n * k <= 121 else rs.randint(-99, 99, n * k)
    P = [[int(vals[i * k + j]) for j in range(k)] for i in range(n)]
    missing = groups is not None and any(m >= 3 and m - 3 >= len(groups) for m in modes)
    shared = any(m >= 2 for m in modes)
    res.nontrivial = shared and n >= 2 and not missing
    res.stat("pack_cases")
    res.stat("pack_family_" + inp.get("family", "corpus"))
    if inp.get("family") == "exh":
        res.stat("exhaustive_family")
    res.stat("pack_groups_none" if groups is None else "pack_groups_given")
    if missing:
        res.stat("pack_missing_groups")
    sig = dict(stream="pack")

    # -- correspondence: pack with every operation
    first_vec = None
    for name, op, code in OPS:
        iv = impl_pack(P, modes, groups, op)
        mv, meta = model_pack(ctx, code, n, modes, groups, P)
        if (iv is None) != (mv is None):
            res.violation("correspondence-break", "vect_from_params(op=%s): raise/no-raise differs" % name,
                          impl=str(iv), model=str(mv), broken="Pack.pack (error branch)",
                          signature=dict(sig, what="pack-error"))
            return res
        if iv is None:
            res.stat("pack_valueerror")
            continue
        if meta.get("wf") != "1":
            res.violation("harness-error", "generated groups not well-formed for the model: %r" % inp)
            return res
        if [int(x) for x in iv] != mv or any(x.denominator != 1 for x in iv):
            res.violation("correspondence-break", "vect_from_params(op=%s) differs from the model" % name,
                          impl=[str(x) for x in iv], model=mv, broken="Pack.pack",
                          signature=dict(sig, what="pack-value", op=name))
        if name == "first":
            first_vec = mv
            if int(meta["len"]) != py_packed_len(n, modes, groups) or len(iv) != int(meta["len"]):
                res.violation("property-violation" if len(iv) != py_packed_len(n, modes, groups)
                              else "correspondence-break",
                              "vector length %d, documented %d, model packedLen %s"
                              % (len(iv), py_packed_len(n, modes, groups), meta["len"]),
                              impl=len(iv), model=meta["len"], broken="Pack.packedLen",
                              signature=dict(sig, what="length"))
    if missing:
        # unpack must raise as well
        iu = impl_unpack([0] * 64, P, modes, groups)
        mu, _ = model_unpack(ctx, n, modes, groups, P, [0] * 64)
        if (iu is None) != (mu is None):
            res.violation("correspondence-break", "vect_to_params: raise/no-raise differs",
                          impl=str(iu), model=str(mu), broken="Pack.unpack (error branch)",
                          signature=dict(sig, what="unpack-error"))
        return res

    # -- unpack of an arbitrary vector of the right length: model + oracle pack(unpack(v)) == v
    L = py_packed_len(n, modes, groups)
    v = [int(x) for x in rs.permutation(np.arange(100, 100 + max(L, 1)))[:L]]
    iu = impl_unpack(v, P, modes, groups)
    mu, meta = model_unpack(ctx, n, modes, groups, P, v)
    if iu is None or mu is None:
        res.violation("correspondence-break", "vect_to_params raised / model none on valid input",
                      impl=str(iu), model=str(mu), broken="Pack.unpack", signature=dict(sig, what="unpack-error"))
        return res
    if [[int(x) for x in r] for r in iu] != mu:
        res.violation("correspondence-break", "vect_to_params differs from the model",
                      impl=[[str(x) for x in r] for r in iu], model=mu, broken="Pack.unpack",
                      signature=dict(sig, what="unpack-value"))
    back = impl_pack([[float(x) for x in r] for r in iu], modes, groups, None)
    if back is None or [int(x) for x in back] != v:
        res.violation("property-violation", "pack(unpack(v)) != v for v=%s: got %s" % (v, back),
                      impl=[str(x) for x in back] if back is not None else None, model=v,
                      signature=dict(sig, what="pack-unpack"))
    # -- purity of both functions (inputs untouched, outputs own memory, layout independent, repeatable)
    try:
        check_pack_purity(res, P, modes, groups, v, sig)
    except Exception as e:
        res.violation("property-violation", "pack/unpack raised %s: %s on a re-laid-out argument (n=%d "
                      "modes=%s groups=%s)" % (type(e).__name__, e, n, modes, groups),
                      signature=dict(sig, what="purity-raises", error=type(e).__name__))
    # -- unpack(pack(p)) == p for consistent p, with every `constant-preserving` operation
    Q = make_consistent(P, n, modes, groups)
    for name, op in [("first", None), ("mean", np.mean), ("min", np.min), ("max", np.max)]:
        pv = impl_pack(Q, modes, groups, op)
        if pv is None:
            res.violation("property-violation", "pack raised on consistent params", signature=dict(sig, what="unpack-pack"))
            continue
        # const entries are taken from a different base array to show they come from `params`
        qu = impl_unpack([float(x) for x in pv], Q, modes, groups)
        if qu is None or [[int(x) for x in r] for r in qu] != Q:
            res.violation("property-violation", "unpack(pack(p, op=%s)) != p for consistent p=%s" % (name, Q),
                          impl=[[str(x) for x in r] for r in qu] if qu else None, model=Q,
                          signature=dict(sig, what="unpack-pack", op=name))
    mq, _ = model_pack(ctx, 0, n, modes, groups, Q)
    if mq is not None:
        mr, _ = model_unpack(ctx, n, modes, groups, Q, mq)
        if mr != Q:
            res.violation("harness-error", "model: unpack(pack(Q)) != Q although proved: %r" % inp)
    if res.nontrivial and not res.viol and inp.get("family") != "exh":
        res.sample = dict(input=dict(n=n, modes=modes, groups=groups, params=P), vector=first_vec)
    return res


# ------------------------------------------------------------------------------------------------
# gradient stream

def make_subimage(coords, image, radius):
    """the arrays `prepare_subimage` hands to get_residual (own implementation, full-image box)"""
    ndim = image.ndim
    idx = np.indices(image.shape).astype(np.float64)
    dist = [sum(((idx[d] - c[d]) / radius[d]) ** 2 for d in range(ndim)) <= 1 for c in coords]
    total = np.any(dist, axis=0)
    masks = np.array([d[total] for d in dist], dtype=bool)
    mesh = idx[:, total]
    return image[total].astype(np.float64), mesh, masks


def build_grad(inp, attempt):
    """deterministic construction of the arrays of one case"""
    from trackpy.refine.least_squares import FitFunctions, vect_from_params
    rs = np.random.RandomState((inp["npseed"] + 7919 * attempt) % (2 ** 31))
    ndim, iso, fn, n = inp["ndim"], inp["iso"], inp["fn"], inp["n"]
    clusters = inp["clusters"]
    groups = [clusters] if inp["use_groups"] else None
    with warnings.catch_warnings():
        warnings.simplefilter("ignore")
        ff = FitFunctions(fn, ndim, iso, dict(inp["param_mode"]))
    nvars = len(ff.params)
    if inp.get("small_size"):
        base_size = rs.uniform(0.9, 1.4)
        radius = tuple([int(rs.randint(5, 8))] * ndim) if ndim == 2 else tuple([4] * ndim)
    else:
        base_size = rs.uniform(1.8, 3.2)
        radius = tuple([int(rs.randint(4, 7))] * ndim) if ndim == 2 else tuple([int(rs.randint(3, 5))] * ndim)
    shape = tuple(2 * r + 8 for r in radius)
    params = np.zeros((n, nvars))
    images, meshes, masks = [None] * len(clusters), [None] * len(clusters), [None] * len(clusters)
    truth = np.zeros((n, nvars))
    for ci, cl in enumerate(clusters):
        centre = np.array([s / 2.0 for s in shape])
        coords = centre + rs.uniform(-3.0, 3.0, (len(cl), ndim))
        full = rs.uniform(0, 4, shape)
        bgv = rs.uniform(3, 20)
        for j, i in enumerate(cl):
            params[i, 0] = bgv + (rs.uniform(-1, 1) if rs.rand() < 0.5 else 0.0)
            params[i, 1] = rs.uniform(40, 200)
            params[i, 2:2 + ndim] = coords[j] + rs.uniform(-0.4, 0.4, ndim)
            nsz = 1 if iso else ndim
            params[i, 2 + ndim:2 + ndim + nsz] = base_size * rs.uniform(0.8, 1.25, nsz)
            if fn == "ring":
                params[i, -1] = rs.uniform(0.12, 0.45)
                if inp.get("neg_thickness"):
                    params[i, -1] = -params[i, -1]
            if inp.get("bg_zero"):
                params[i, 0] = 0.0
            truth[i] = params[i] * rs.uniform(0.9, 1.1, nvars)
            truth[i, 2:2 + ndim] = coords[j]
        # synthetic image: noise + blobs at the `true` parameters
        idx = np.indices(shape).astype(np.float64)
        if not inp.get("bg_zero"):
            full = full + bgv
        for j, i in enumerate(cl):
            sz = truth[i, 2 + ndim:2 + ndim + (1 if iso else ndim)]
            sz = np.broadcast_to(sz, (ndim,))
            r2 = sum(((idx[d] - coords[j][d]) / sz[d]) ** 2 for d in range(ndim))
            if fn == "gauss":
                full = full + truth[i, 1] * np.exp(-0.5 * ndim * r2)
            else:
                t = truth[i, -1]
                full = full + truth[i, 1] * np.exp(-0.5 * ndim * ((np.sqrt(r2) - 1 + t) / t) ** 2)
        images[ci], meshes[ci], masks[ci] = make_subimage(coords, full, radius)
    # make the starting array consistent with the modes (as refine_leastsq does with np.mean), then
    # perturb the vector: an arbitrary admissible point
    v0 = vect_from_params(params, ff.modes, groups, operation=np.mean)
    v = v0 * rs.uniform(0.97, 1.03, len(v0)) + rs.uniform(-0.05, 0.05, len(v0))
    return ff, groups, params, v, images, meshes, masks


def ring_margin(ff, groups, params, v, meshes, masks, clusters, ndim):
    """smallest |dist - 1| over masked pixels (the NaN cut of the _safe r2 variants)"""
    from trackpy.refine.least_squares import vect_to_params
    p = vect_to_params(v, params, ff.modes, groups)
    best = np.inf
    for cl, mesh, mk in zip(clusters, meshes, masks):
        for j, i in enumerate(cl):
            d = sum((mesh[a][mk[j]] - p[i, 2 + a]) ** 2 for a in range(ndim))
            if d.size:
                best = min(best, float(np.min(np.abs(d - 1.0))))
    return best


def lsq_line(inp, ff, groups, params, v, images, meshes, masks, clusters):
    geo = GEOS.index((inp["ndim"], bool(inp["iso"])))
    n, nvars = params.shape
    toks = [geo, FNS.index(inp["fn"]), n, nvars] + [int(m) for m in ff.modes] + enc_groups(groups)
    toks += [f2b(x) for x in params.ravel()]
    toks += [len(v)] + [f2b(x) for x in v] + [f2b(inp["norm"]), len(clusters)]
    for cl, im, mesh, mk in zip(clusters, images, meshes, masks):
        toks += [len(cl)] + list(cl) + [len(im)] + [f2b(x) for x in im]
        toks += [f2b(x) for x in mesh.T.ravel()]
        toks += [int(b) for b in mk.ravel()]
    return "LSQ " + " ".join(map(str, toks))


def fd_gradient(residual, v):
    g = np.zeros(len(v))
    for m in range(len(v)):
        h = 2e-4 * max(1.0, abs(v[m]))

        def cd(hh):
            a = v.copy(); a[m] += hh
            b = v.copy(); b[m] -= hh
            return (residual(a) - residual(b)) / (2 * hh)
        g[m] = (4 * cd(h / 2) - cd(h)) / 3
    return g


def vect_labels(ff, n, groups):
    """which (parameter, mode) every vector component belongs to"""
    lab = []
    for name, m in zip(ff.params, ff.modes):
        if m == 0:
            continue
        elif m == 1:
            lab += [(name, m)] * n
        elif m == 2 or groups is None:
            lab += [(name, m)]
        else:
            lab += [(name, m)] * len(groups[m - 3])
    return lab


def run_grad_case(ctx, inp):
    res = Result()
    clusters = inp["clusters"]
    ndim = inp["ndim"]
    built = None
    for attempt in range(12):
        ff, groups, params, v, images, meshes, masks = build_grad(inp, attempt)
        if inp["fn"] != "ring" or ring_margin(ff, groups, params, v, meshes, masks, clusters, ndim) > 0.02:
            built = True
            break
    if not built:
        res.borderline = True
        res.stat("grad_borderline")
        return res
    if not ff.has_jacobian:
        res.violation("harness-error", "has_jacobian False for %s" % inp["fn"])
        return res
    residual, jacobian = ff.get_residual(images, meshes, masks, params, groups, inp["norm"])
    if len(v) == 0:
        res.stat("grad_empty_vector")
        return res
    with np.errstate(all="ignore"):
        r_code = float(residual(v))
        j_code = np.asarray(jacobian(v), dtype=np.float64)
        fd = fd_gradient(residual, v)
    labels = vect_labels(ff, inp["n"], groups)
    gn = float(np.max(np.abs(j_code))) if len(j_code) else 0.0
    key = "%dd_%s_%s" % (ndim, "iso" if inp["iso"] else "aniso", inp["fn"])
    res.stat("grad_cases")
    res.stat("grad_" + key)
    res.stat("grad_nfeat_%d" % inp["n"])
    res.stat("grad_nclusters_%d" % len(clusters))
    res.stat("grad_groups_none" if groups is None else "grad_groups_given")
    for name, m in set(labels):
        res.stat("grad_comp_%s_mode%d" % (name if name in ("background", "signal", "thickness") else
                                          ("size" if name.startswith("size") else "pos"), m))
    res.stat("grad_components", len(v))
    shared = any(m >= 2 for m in ff.modes)
    res.nontrivial = (inp["n"] >= 2 or shared) and gn > 0
    sig = dict(stream="grad", fn=inp["fn"], ndim=ndim, iso=bool(inp["iso"]))

    # ---- direct oracle: finite differences of the code's residual vs the code's jacobian
    bad_fd = [m for m in range(len(v)) if not abs(fd[m] - j_code[m]) <= 1e-5 * gn + 1e-9]
    # ---- correspondence: Float mirror of the proved formulas
    line = lsq_line(inp, ff, groups, params, v, images, meshes, masks, clusters)
    r = common.kv(ctx.ask(line))
    if "res" not in r:
        res.violation("harness-error", "driver: %r" % (r,))
        return res
    r_mod = b2f(r["res"])
    j_mod = np.array([b2f(x) for x in r["jac"].split(",")]) if r.get("jac") not in (None, True, "") else np.zeros(0)
    res.stat("grad_nan_pixels", int(r["nan"]))
    res.stat("grad_cut_terms", int(r["cut"]))
    res.stat("grad_active_terms", int(r["act"]))
    if int(r["nan"]):
        res.stat("grad_cases_with_nan_pixels")
    if int(r["cut"]):
        res.stat("grad_cases_with_cut_terms")
    bad_m = []
    if len(j_mod) != len(j_code):
        bad_m = list(range(len(j_code)))
    else:
        bad_m = [m for m in range(len(v)) if not abs(j_mod[m] - j_code[m]) <= 1e-9 * gn + 1e-300]
    bad_r = not abs(r_mod - r_code) <= 1e-9 * abs(r_code) + 1e-300

    if bad_fd:
        m = bad_fd[0]
        res.violation("property-violation",
                      "jacobian component %d (%s, mode %d) = %.12g but finite differences of the "
                      "residual give %.12g (max|jac| %.3g); mirror of the proved derivative: %s"
                      % (m, labels[m][0], labels[m][1], j_code[m], fd[m], gn,
                         j_mod[m] if len(j_mod) == len(j_code) else "n/a"),
                      impl=dict(jac=j_code.tolist(), fd=fd.tolist(), residual=r_code),
                      model=dict(jac=j_mod.tolist(), residual=r_mod),
                      signature=dict(sig, what="gradient", param=labels[m][0], mode=labels[m][1]))
    elif bad_m or bad_r:
        what = "residual" if bad_r and not bad_m else "jacobian"
        m = bad_m[0] if bad_m else -1
        res.violation("correspondence-break",
                      "%s differs from the Float mirror (component %d %s): code %.17g, mirror %.17g"
                      % (what, m, labels[m] if bad_m else "", j_code[m] if bad_m else r_code,
                         (j_mod[m] if len(j_mod) == len(j_code) else float("nan")) if bad_m else r_mod),
                      impl=dict(jac=j_code.tolist(), residual=r_code),
                      model=dict(jac=j_mod.tolist(), residual=r_mod),
                      broken="Lsq.residual / Lsq.gradRows (Float instance)",
                      signature=dict(sig, what="mirror-" + what))
    elif res.nontrivial:
        err_fd = float(np.max(np.abs(fd - j_code))) / gn if gn else 0.0
        err_m = float(np.max(np.abs(j_mod - j_code))) / gn if gn else 0.0
        res.stat("grad_fd_relerr_below_1e-7" if err_fd < 1e-7 else "grad_fd_relerr_1e-7_to_1e-5")
        res.stat("grad_mirror_relerr_below_1e-12" if err_m < 1e-12 else "grad_mirror_relerr_1e-12_to_1e-9")
        res.sample = dict(input=dict((k, inp[k]) for k in ("ndim", "iso", "fn", "n", "clusters", "param_mode")),
                          modes=[int(m) for m in ff.modes], residual=r_code, max_abs_jac=gn,
                          fd_relerr=err_fd, mirror_relerr=err_m)
    return res


# ------------------------------------------------------------------------------------------------
# reuse stream: residual / jacobian are functions of the value of the vector, nothing else

class PairSpec:
    """everything needed to build a (residual, jacobian) pair, kept pristine"""

    def __init__(self, inp, attempt):
        self.inp = inp
        ff, groups, params, v, images, meshes, masks = build_grad(inp, attempt)
        self.groups, self.params, self.v = groups, params, v
        self.images, self.meshes, self.masks = images, meshes, masks
        self.modes = [int(m) for m in ff.modes]

    def make_ff(self):
        from trackpy.refine.least_squares import FitFunctions
        inp = self.inp
        with warnings.catch_warnings():
            warnings.simplefilter("ignore")
            return FitFunctions(inp["fn"], inp["ndim"], inp["iso"], dict(inp["param_mode"]))

    def arrays(self):
        return ([a.copy() for a in self.images], [a.copy() for a in self.meshes],
                [a.copy() for a in self.masks], self.params.copy(), copy.deepcopy(self.groups))

    def pair(self, ff=None):
        """-> residual, jacobian, the arrays that were handed over (to audit them afterwards)"""
        ff = ff or self.make_ff()
        im, me, ma, pa, gr = self.arrays()
        residual, jacobian = ff.get_residual(im, me, ma, pa, gr, self.inp["norm"])
        return residual, jacobian, (im, me, ma, pa, gr)

    def handed_unchanged(self, handed):
        im, me, ma, pa, gr = handed
        return (all(same_bits(a, b) for a, b in zip(im, self.images)) and
                all(same_bits(a, b) for a, b in zip(me, self.meshes)) and
                all(same_bits(a, b) for a, b in zip(ma, self.masks)) and
                same_bits(pa, self.params) and
                canon_groups(gr) == canon_groups(self.groups))


def canon_groups(g):
    return None if g is None else [[[int(i) for i in c] for c in gl] for gl in g]


def answers_equal(a, b, fn):
    """recorded answer a vs reference b"""
    a = np.asarray(a, dtype=np.float64)
    b = np.asarray(b, dtype=np.float64)
    if a.shape != b.shape:
        return False
    na, nb = np.isnan(a), np.isnan(b)
    if (na != nb).any():
        return False
    if a.size == 0 or na.all():
        return True
    with np.errstate(all="ignore"):
        scale = float(np.nanmax(np.abs(b)))
        if not np.isfinite(scale):
            return bool(np.array_equal(a[~na], b[~nb]))
        return bool(np.nanmax(np.abs(a - b)) <= 1e-12 * scale + 1e-300)


def run_reuse_case(ctx, inp):
    res = Result()
    res.stat("reuse_cases")
    rs = np.random.RandomState(inp["wseed"] % (2 ** 31))
    specs = {"A": PairSpec(inp["a"], 0), "C": PairSpec(inp["a"], 1), "B": PairSpec(inp["b"], 0)}
    ff_a = specs["A"].make_ff()                      # ONE FitFunctions object, two closures (A, C)
    ff_b = specs["B"].make_ff()
    if not (ff_a.has_jacobian and ff_b.has_jacobian):
        res.violation("harness-error", "has_jacobian False")
        return res
    pairs, handed = {}, {}
    for name, ff in (("A", ff_a), ("C", ff_a), ("B", ff_b)):
        r_, j_, h_ = specs[name].pair(ff)
        pairs[name] = dict(res=r_, jac=j_)
        handed[name] = h_
    # persistent vector objects of every pair
    X, S, big, last_poke = {}, {}, {}, {}
    for name, sp in specs.items():
        X[name] = np.array(sp.v, dtype=np.float64)
        L = len(sp.v)
        big[name] = np.full(2 * L + 3, 12345.0)
        S[name] = big[name][2:2 + 2 * L:2]
        S[name][:] = sp.v
    sigbase = dict(stream="reuse")
    records = []
    prev_on_X = {}
    inplace_changed = 0
    interleaved = 0
    last_pair = None
    for step, (name, fn, kind) in enumerate(inp["script"]):
        sp = specs[name]
        L = len(sp.v)
        if L == 0:
            res.stat("reuse_empty_vector_ops")
            continue
        x = X[name]
        if kind in ("inplace",):
            x *= rs.uniform(0.99, 1.01, L)                       # a step of a hand-written optimiser
            vec = x
        elif kind == "poke":
            m = int(rs.randint(L))
            h = 1e-3 * max(1.0, abs(float(x[m])))
            x[m] += h                                            # in-place finite difference
            last_poke[name] = (m, h)
            vec = x
        elif kind == "undo":
            if name in last_poke:
                m, h = last_poke.pop(name)
                x[m] -= h
            else:
                kind = "same"
            vec = x
        elif kind in ("same", "fresh0"):
            vec = x
        elif kind == "strided":
            S[name] *= rs.uniform(0.99, 1.01, L)                 # persistent non-contiguous view
            vec = S[name]
        elif kind == "reversed":
            vec = (x * rs.uniform(0.995, 1.005, L))[::-1].copy()[::-1]
        elif kind == "readonly":
            vec = x * rs.uniform(0.995, 1.005, L)
            vec.flags.writeable = False
        elif kind == "f32":
            vec = (x * rs.uniform(0.995, 1.005, L)).astype(np.float32)
        elif kind == "longdouble":
            vec = (x * rs.uniform(0.995, 1.005, L)).astype(np.longdouble)
        else:
            vec = x.copy()
        snap = vec.tobytes()
        value = np.array(vec, dtype=np.float64)                  # the vector the answer is about
        try:
            with np.errstate(all="ignore"):
                ans = pairs[name][fn](vec)
            ans = np.array(ans, dtype=np.float64)                # own copy
        except Exception as e:
            res.violation("property-violation",
                          "%s of pair %s raised %s: %s on a %s vector (step %d of the walk)"
                          % (fn, name, type(e).__name__, e, kind, step),
                          signature=dict(sigbase, what="raises", call=fn, vector=kind, error=type(e).__name__))
            return res
        if vec.tobytes() != snap:
            res.violation("property-violation",
                          "%s of pair %s modified the caller's vector (%s, step %d)" % (fn, name, kind, step),
                          signature=dict(sigbase, what="caller-vector-modified", call=fn, vector=kind))
            return res
        res.stat("reuse_ops")
        res.stat("reuse_op_" + kind)
        res.stat("reuse_call_" + fn)
        if last_pair is not None and last_pair != name:
            interleaved += 1
        last_pair = name
        if vec is x:
            key = (name, fn)
            if kind in ("inplace", "poke") and key in prev_on_X and not answers_equal(ans, prev_on_X[key], fn):
                inplace_changed += 1
            prev_on_X[key] = ans
        records.append(dict(step=step, pair=name, fn=fn, kind=kind, value=value, ans=ans))
    if not records:
        return res
    res.stat("inplace_reuse_cases")
    res.stat("reuse_pairs_interleaved", interleaved)
    res.stat("reuse_inplace_answer_changed", inplace_changed)

    # ---- phase 2: audit every recorded answer against a freshly built pair on a fresh copy
    for rec in records:
        sp = specs[rec["pair"]]
        r_, j_, _ = sp.pair()
        with np.errstate(all="ignore"):
            ref = np.array((r_ if rec["fn"] == "res" else j_)(rec["value"].copy()), dtype=np.float64)
        if answers_equal(rec["ans"], ref, rec["fn"]):
            continue
        extra = ""
        if rec["fn"] == "jac":
            with np.errstate(all="ignore"):
                fd = fd_gradient(pairs[rec["pair"]]["res"], rec["value"].copy())
            gn = float(np.max(np.abs(ref))) or 1.0
            extra = ("; central differences of the paired residual at x: rel. distance %.3g to the answer, "
                     "%.3g to the fresh pair's jacobian"
                     % (float(np.max(np.abs(fd - rec["ans"]))) / gn, float(np.max(np.abs(fd - ref))) / gn))
        a1, b1 = np.atleast_1d(rec["ans"]), np.atleast_1d(ref)
        m = int(np.nanargmax(np.abs(a1 - b1))) if a1.shape == b1.shape else 0
        res.violation("property-violation",
                      "%s(x) of pair %s at step %d of the walk (vector kind %r: %s) answered %.12g%s but a "
                      "freshly built pair on a copy of the same x gives %.12g: the answer depends on earlier "
                      "calls, not on x%s"
                      % ("jacobian" if rec["fn"] == "jac" else "residual", rec["pair"], rec["step"], rec["kind"],
                         "same ndarray object as before, updated in place" if rec["kind"] in
                         ("inplace", "poke", "undo", "strided") else
                         ("same ndarray object, unmodified" if rec["kind"] == "same" else "new array"),
                         a1[m] if a1.shape == b1.shape else float("nan"),
                         " (component %d)" % m if rec["fn"] == "jac" else "", b1[m] if len(b1) else float("nan"),
                         extra),
                      impl=dict(answer=rec["ans"].tolist(), x=rec["value"].tolist()),
                      model=dict(fresh_pair=ref.tolist()),
                      signature=dict(sigbase, what="history-dependent-answer", call=rec["fn"],
                                     vector=rec["kind"]))
        return res
    # ---- finite-difference audit of recorded jacobians (the statement itself), paired residual on copies
    jrecs = [r for r in records if r["fn"] == "jac"]
    pref = [r for r in jrecs if r["kind"] in ("inplace", "poke", "undo", "strided")]
    todo = (pref[-2:] + [r for r in jrecs if r not in pref][-1:])[:3]
    for rec in todo:
        sp = specs[rec["pair"]]
        inp1 = sp.inp
        if inp1["fn"] == "ring":
            ff1 = sp.make_ff()
            if not ring_margin(ff1, sp.groups, sp.params, rec["value"], sp.meshes, sp.masks,
                               inp1["clusters"], inp1["ndim"]) > 0.02:
                res.stat("reuse_fd_skipped_near_cut")
                continue
        with np.errstate(all="ignore"):
            fd = fd_gradient(pairs[rec["pair"]]["res"], rec["value"].copy())
        gn = float(np.max(np.abs(rec["ans"]))) if rec["ans"].size else 0.0
        res.stat("reuse_fd_checks")
        badc = [m for m in range(len(fd)) if not abs(fd[m] - rec["ans"][m]) <= 1e-5 * gn + 1e-9]
        if badc:
            m = badc[0]
            res.violation("property-violation",
                          "jacobian(x) recorded at step %d of the walk (pair %s, vector kind %r): component %d "
                          "= %.12g but central differences of the paired residual at x give %.12g (max|jac| %.3g)"
                          % (rec["step"], rec["pair"], rec["kind"], m, rec["ans"][m], fd[m], gn),
                          impl=dict(jac=rec["ans"].tolist(), fd=fd.tolist(), x=rec["value"].tolist()),
                          signature=dict(sigbase, what="gradient", vector=rec["kind"],
                                         fn=inp1["fn"], ndim=inp1["ndim"], iso=bool(inp1["iso"])))
            return res
    # ---- the arrays handed to get_residual are the caller's: untouched
    for name in specs:
        if not specs[name].handed_unchanged(handed[name]):
            res.violation("property-violation",
                          "evaluating residual / jacobian modified an array that was handed to get_residual "
                          "(pair %s)" % name, signature=dict(sigbase, what="handed-array-modified"))
            return res
    a = inp["a"]
    shared = any(m >= 2 for m in specs["A"].modes)
    res.nontrivial = (a["n"] >= 2 or shared) and inplace_changed >= 1
    if res.nontrivial:
        res.sample = dict(stream="reuse", fn=[a["fn"], inp["b"]["fn"]], ndim=[a["ndim"], inp["b"]["ndim"]],
                          calls=len(records), kinds=sorted({r["kind"] for r in records}),
                          interleaved=interleaved, inplace_answer_changed=inplace_changed)
    return res


def run_case(ctx, inp):
    if inp.get("stream") == "pack":
        return run_pack_case(ctx, inp)
    if inp.get("stream") == "reuse":
        return run_reuse_case(ctx, inp)
    return run_grad_case(ctx, inp)
