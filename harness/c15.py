"""C15 — the least-squares objective's gradient and parameter packing are exact.

Two streams:
  pack : `vect_from_params` / `vect_to_params` on integer-valued arrays against the Lean model
         (`PACK` / `UNPACK`, exact integers; theorems `unpack_pack`, `pack_unpack`, `packedLen_eq`,
         `packSum_adjoint` of Props/C15 are about these very definitions).  The family
         modes in {0,1,2,3}^k (k<=4; thorough k<=5) x n<=4 features x {groups=None, every set partition} is
         enumerated exhaustively; a random stream adds custom modes 4,5, shuffled / non-covering
         groups and missing group lists (ValueError <-> `none`).
         Direct oracle (from the statement, model-free): pack(unpack(v)) == v for every vector of
         the right length, unpack(pack(p)) == p for p consistent with its modes.
  grad : `FitFunctions(...).get_residual` on random sub-images (2-D/3-D, iso/anisotropic,
         gauss/ring, every param_mode over {const,var,global,cluster}, 1-4 features, 1-3
         clusters): the code's residual(v) and jacobian(v) against the Float instance (`LSQ`) of the
         generic formulas whose real instance is proved to be the derivative (Props/C15
         `residual_grad*`).  Direct oracle (model-free): Richardson central differences of the
         code's own residual against its jacobian, tolerance relative to the gradient norm.
"""
import itertools
import struct
import warnings

import numpy as np

from . import common
from .common import Result

PROP = "C15"
RULE = ("pack stream: exhaustive family modes in {0,1,2,3}^k, k<=4 (thorough: k<=5), n<=4 features, groups=None and every set partition of the features, "
        "distinct integer entries; random stream with modes up to 5, shuffled and non-covering "
        "groups, missing group lists.  Non-trivial = at least one shared (global/grouped) column "
        "and n>=2.  grad stream: random sub-images with 1-4 features in 1-3 clusters, random "
        "param_mode over {const,var,global,cluster} for every parameter, random admissible vector; "
        "non-trivial = at least 2 features or a shared parameter, gradient norm > 0.  Distinct = "
        "distinct canonical input.")
ASSUMPTIONS = [
    "gradient mirror: float64 in both (Lean `Float` = C double, same libm exp/sqrt up to 1 ulp); "
    "residual and every jacobian component compared with tolerance 1e-9 relative to the residual "
    "/ to the largest gradient component (summation order differs: np.nansum is pairwise)",
    "finite-difference oracle: Richardson-extrapolated central differences with steps 2e-4 and "
    "1e-4 (times max(1,|v_m|)); accepted when |fd - jac| <= 1e-5 * max|jac| + 1e-9; cases in which a "
    "ring pixel is within 0.02 of the NaN cut dist == 1 are resampled (the objective is "
    "discontinuous there: the pixel enters/leaves the sum), counted borderline if none is found",
    "the set of contributing pixels (masks, NaN cut of the _safe r2 variants, safe_exp underflow "
    "cut) is held fixed in the theorems; the mirror recomputes it with the same float tests",
    "disc and inv_series have no analytic jacobian in the code (has_jacobian False): out of scope",
    "custom modes >= 4 are exercised for packing only; the gradient statement is quantified over "
    "{const,var,global,cluster} (the code reads the background of a cluster from its first "
    "feature, which is only meaningful when the background is shared per cluster or coarser)",
]
MIN_NONTRIVIAL = 20

GEOS = [(2, True), (2, False), (3, True), (3, False)]      # driver code = index
FNS = ["gauss", "ring"]


def init(ctx):
    common.setup_repo_path()
    warnings.filterwarnings("ignore")


# ------------------------------------------------------------------------------------------------
# helpers

def f2b(x):
    return struct.unpack("<Q", struct.pack("<d", float(x)))[0]


def b2f(b):
    return struct.unpack("<d", struct.pack("<Q", int(b)))[0]


def enc_groups(groups):
    if groups is None:
        return [0]
    out = [1, len(groups)]
    for gl in groups:
        out.append(len(gl))
        for g in gl:
            out.append(len(g))
            out.extend(int(j) for j in g)
    return out


def set_partitions(items):
    items = list(items)
    if not items:
        yield []
        return
    first, rest = items[0], items[1:]
    for part in set_partitions(rest):
        yield [[first]] + part
        for i in range(len(part)):
            yield part[:i] + [[first] + part[i]] + part[i + 1:]


def py_packed_len(n, modes, groups):
    """length of the vector, from the docstring of vect_from_params (independent of the model)"""
    tot = 0
    for m in modes:
        if m == 0:
            continue
        elif m == 1:
            tot += n
        elif m == 2 or groups is None:
            tot += 1
        else:
            tot += len(groups[m - 3])
    return tot


# ------------------------------------------------------------------------------------------------
# generation

def gen_cases(ctx):
    for inp in ctx.corpus():
        yield inp
    # ---- exhaustive packing family
    kmax = 5 if ctx.thorough else 4
    for n in (1, 2, 3, 4):
        groupings = [None] + [[p] for p in set_partitions(range(n))]
        for gi, groups in enumerate(groupings):
            for k in range(1, kmax + 1):
                for modes in itertools.product(range(4), repeat=k):
                    yield dict(stream="pack", family="exh", n=n, modes=list(modes), groups=groups,
                               seed=(n * 1000 + gi) * 7 + k)
    # ---- random packing stream: custom modes, shuffled / partial / missing groups
    for i in range(ctx.n(600, 20000)):
        rng = ctx.rng("packrnd", i)
        n = rng.randint(1, 6)
        k = rng.randint(1, 6)
        nlists = rng.choice([0, 1, 1, 2, 3])
        groups = []
        for _ in range(nlists):
            feats = list(range(n))
            rng.shuffle(feats)
            if rng.random() < 0.3:
                feats = feats[:rng.randint(1, n)]           # not covering
            gl, cur = [], []
            for j in feats:
                cur.append(j)
                if rng.random() < 0.5:
                    gl.append(cur)
                    cur = []
            if cur:
                gl.append(cur)
            groups.append(gl)
        if rng.random() < 0.15:
            groups = None
        modes = [rng.choice([0, 1, 2, 3, 3, 4, 5]) for _ in range(k)]
        yield dict(stream="pack", family="rnd", n=n, modes=modes, groups=groups, seed=i)
    # ---- gradient stream
    for i in range(ctx.n(600, 10000)):
        rng = ctx.rng("grad", i)
        yield gen_grad(rng, i)


MODE_NAMES = ["const", "var", "global", "cluster"]


def gen_grad(rng, i):
    ndim, iso = GEOS[i % 4] if i < 64 else rng.choice(GEOS)
    fn = FNS[(i // 4) % 2] if i < 64 else rng.choice(FNS)
    n = rng.randint(1, 4) if ndim == 2 else rng.randint(1, 3)
    ncl = rng.randint(1, min(3, n))
    # clusters: random surjection of features onto clusters, as lists of indices
    while True:
        lab = [rng.randrange(ncl) for _ in range(n)]
        if len(set(lab)) == ncl:
            break
    clusters = [[j for j in range(n) if lab[j] == c] for c in range(ncl)]
    if rng.random() < 0.3:
        rng.shuffle(clusters)
    use_groups = True
    if ncl == 1 and rng.random() < 0.5:
        use_groups = False                # groups=None: one cluster, mode 3 behaves like global
    pos = ["z", "y", "x"][-ndim:]
    size_cols = ["size"] if iso else ["size_" + c for c in pos]
    names = ["background", "signal"] + pos + size_cols + (["thickness"] if fn == "ring" else [])
    style = rng.random()
    pm = {}
    for nm in names:
        if style < 0.15:
            continue                       # defaults of the code
        if style < 0.3:
            pm[nm] = "var" if nm != "background" else rng.choice(["cluster", "global", "var"])
        else:
            pm[nm] = rng.choice(MODE_NAMES)
    return dict(stream="grad", ndim=ndim, iso=iso, fn=fn, n=n, clusters=clusters,
                use_groups=use_groups, param_mode=pm, npseed=rng.randrange(2 ** 31),
                small_size=rng.random() < 0.25, norm=rng.choice([1.0, 1.0, 37.5, 1e4]))


# ------------------------------------------------------------------------------------------------
# packing stream

OPS = [("first", None, 0), ("sum", np.sum, 1), ("min", np.min, 2), ("max", np.max, 3)]


def impl_pack(P, modes, groups, op):
    from trackpy.refine.least_squares import vect_from_params
    try:
        out = vect_from_params(np.array(P, dtype=np.float64).reshape(len(P), len(modes)),
                               np.array(modes), groups, operation=op)
    except ValueError as e:
        return None
    return [common.frac(float(x)) for x in out]


def impl_unpack(v, P, modes, groups):
    from trackpy.refine.least_squares import vect_to_params
    try:
        out = vect_to_params(np.array(v, dtype=np.float64),
                             np.array(P, dtype=np.float64).reshape(len(P), len(modes)),
                             np.array(modes), groups)
    except ValueError:
        return None
    return [[common.frac(float(x)) for x in row] for row in out]


def model_pack(ctx, opcode, n, modes, groups, P):
    k = len(modes)
    cols = [int(P[i][j]) for j in range(k) for i in range(n)]
    toks = [opcode, n, k] + list(modes) + enc_groups(groups) + cols
    r = ctx.ask("PACK " + " ".join(map(str, toks)))
    if r == "none":
        return None, None
    m = common.kv(r)
    v = [int(x) for x in m["v"].split(",")] if m.get("v") not in (None, True, "") else []
    return v, m


def model_unpack(ctx, n, modes, groups, P, v):
    k = len(modes)
    cols = [int(P[i][j]) for j in range(k) for i in range(n)]
    toks = [n, k] + list(modes) + enc_groups(groups) + cols + [len(v)] + [int(x) for x in v]
    r = ctx.ask("UNPACK " + " ".join(map(str, toks)))
    if r == "none":
        return None, None
    m = common.kv(r)
    cs = [[int(x) for x in c.split(",")] for c in m["cols"].split(";")]
    rows = [[cs[j][i] for j in range(k)] for i in range(n)]
    return rows, m


def make_consistent(P, n, modes, groups):
    """independent construction of an array consistent with its modes: shared columns constant on
    the sets that share them"""
    Q = [list(r) for r in P]
    for j, m in enumerate(modes):
        if m in (0, 1):
            continue
        if m == 2 or groups is None:
            for i in range(n):
                Q[i][j] = P[0][j]
        else:
            for g in groups[m - 3]:
                for i in g:
                    Q[i][j] = P[g[0]][j]
    return Q


def run_pack_case(ctx, inp):
    res = Result()
    n, modes, groups = inp["n"], inp["modes"], inp["groups"]
    k = len(modes)
    rs = np.random.RandomState(inp.get("seed", 0) % (2 ** 31))
    vals = rs.permutation(np.arange(-60, 61))[: n * k] if n * k <= 121 else rs.randint(-99, 99, n * k)
    P = [[int(vals[i * k + j]) for j in range(k)] for i in range(n)]
    missing = groups is not None and any(m >= 3 and m - 3 >= len(groups) for m in modes)
    shared = any(m >= 2 for m in modes)
    res.nontrivial = shared and n >= 2 and not missing
    res.stat("pack_cases")
    res.stat("pack_family_" + inp.get("family", "corpus"))
    if inp.get("family") == "exh":
        res.stat("exhaustive_family")
    res.stat("pack_groups_none" if groups is None else "pack_groups_given")
    if missing:
        res.stat("pack_missing_groups")
    sig = dict(stream="pack")

    # -- correspondence: pack with every operation
    first_vec = None
    for name, op, code in OPS:
        iv = impl_pack(P, modes, groups, op)
        mv, meta = model_pack(ctx, code, n, modes, groups, P)
        if (iv is None) != (mv is None):
            res.violation("correspondence-break", "vect_from_params(op=%s): raise/no-raise differs" % name,
                          impl=str(iv), model=str(mv), broken="Pack.pack (error branch)",
                          signature=dict(sig, what="pack-error"))
            return res
        if iv is None:
            res.stat("pack_valueerror")
            continue
        if meta.get("wf") != "1":
            res.violation("harness-error", "generated groups not well-formed for the model: %r" % inp)
            return res
        if [int(x) for x in iv] != mv or any(x.denominator != 1 for x in iv):
            res.violation("correspondence-break", "vect_from_params(op=%s) differs from the model" % name,
                          impl=[str(x) for x in iv], model=mv, broken="Pack.pack",
                          signature=dict(sig, what="pack-value", op=name))
        if name == "first":
            first_vec = mv
            if int(meta["len"]) != py_packed_len(n, modes, groups) or len(iv) != int(meta["len"]):
                res.violation("property-violation" if len(iv) != py_packed_len(n, modes, groups)
                              else "correspondence-break",
                              "vector length %d, documented %d, model packedLen %s"
                              % (len(iv), py_packed_len(n, modes, groups), meta["len"]),
                              impl=len(iv), model=meta["len"], broken="Pack.packedLen",
                              signature=dict(sig, what="length"))
    if missing:
        # unpack must raise as well
        iu = impl_unpack([0] * 64, P, modes, groups)
        mu, _ = model_unpack(ctx, n, modes, groups, P, [0] * 64)
        if (iu is None) != (mu is None):
            res.violation("correspondence-break", "vect_to_params: raise/no-raise differs",
                          impl=str(iu), model=str(mu), broken="Pack.unpack (error branch)",
                          signature=dict(sig, what="unpack-error"))
        return res

    # -- unpack of an arbitrary vector of the right length: model + oracle pack(unpack(v)) == v
    L = py_packed_len(n, modes, groups)
    v = [int(x) for x in rs.permutation(np.arange(100, 100 + max(L, 1)))[:L]]
    iu = impl_unpack(v, P, modes, groups)
    mu, meta = model_unpack(ctx, n, modes, groups, P, v)
    if iu is None or mu is None:
        res.violation("correspondence-break", "vect_to_params raised / model none on valid input",
                      impl=str(iu), model=str(mu), broken="Pack.unpack", signature=dict(sig, what="unpack-error"))
        return res
    if [[int(x) for x in r] for r in iu] != mu:
        res.violation("correspondence-break", "vect_to_params differs from the model",
                      impl=[[str(x) for x in r] for r in iu], model=mu, broken="Pack.unpack",
                      signature=dict(sig, what="unpack-value"))
    back = impl_pack([[float(x) for x in r] for r in iu], modes, groups, None)
    if back is None or [int(x) for x in back] != v:
        res.violation("property-violation", "pack(unpack(v)) != v for v=%s: got %s" % (v, back),
                      impl=[str(x) for x in back] if back is not None else None, model=v,
                      signature=dict(sig, what="pack-unpack"))
    # -- unpack(pack(p)) == p for consistent p, with every `constant-preserving` operation
    Q = make_consistent(P, n, modes, groups)
    for name, op in [("first", None), ("mean", np.mean), ("min", np.min), ("max", np.max)]:
        pv = impl_pack(Q, modes, groups, op)
        if pv is None:
            res.violation("property-violation", "pack raised on consistent params", signature=dict(sig, what="unpack-pack"))
            continue
        # const entries are taken from a different base array to show they come from `params`
        qu = impl_unpack([float(x) for x in pv], Q, modes, groups)
        if qu is None or [[int(x) for x in r] for r in qu] != Q:
            res.violation("property-violation", "unpack(pack(p, op=%s)) != p for consistent p=%s" % (name, Q),
                          impl=[[str(x) for x in r] for r in qu] if qu else None, model=Q,
                          signature=dict(sig, what="unpack-pack", op=name))
    mq, _ = model_pack(ctx, 0, n, modes, groups, Q)
    if mq is not None:
        mr, _ = model_unpack(ctx, n, modes, groups, Q, mq)
        if mr != Q:
            res.violation("harness-error", "model: unpack(pack(Q)) != Q although proved: %r" % inp)
    if res.nontrivial and not res.viol and inp.get("family") != "exh":
        res.sample = dict(input=dict(n=n, modes=modes, groups=groups, params=P), vector=first_vec)
    return res


# ------------------------------------------------------------------------------------------------
# gradient stream

def make_subimage(coords, image, radius):
    """the arrays `prepare_subimage` hands to get_residual (own implementation, full-image box)"""
    ndim = image.ndim
    idx = np.indices(image.shape).astype(np.float64)
    dist = [sum(((idx[d] - c[d]) / radius[d]) ** 2 for d in range(ndim)) <= 1 for c in coords]
    total = np.any(dist, axis=0)
    masks = np.array([d[total] for d in dist], dtype=bool)
    mesh = idx[:, total]
    return image[total].astype(np.float64), mesh, masks


def build_grad(inp, attempt):
    """deterministic construction of the arrays of one case"""
    from trackpy.refine.least_squares import FitFunctions, vect_from_params
    rs = np.random.RandomState((inp["npseed"] + 7919 * attempt) % (2 ** 31))
    ndim, iso, fn, n = inp["ndim"], inp["iso"], inp["fn"], inp["n"]
    clusters = inp["clusters"]
    groups = [clusters] if inp["use_groups"] else None
    with warnings.catch_warnings():
        warnings.simplefilter("ignore")
        ff = FitFunctions(fn, ndim, iso, dict(inp["param_mode"]))
    nvars = len(ff.params)
    if inp.get("small_size"):
        base_size = rs.uniform(0.9, 1.4)
        radius = tuple([int(rs.randint(5, 8))] * ndim) if ndim == 2 else tuple([4] * ndim)
    else:
        base_size = rs.uniform(1.8, 3.2)
        radius = tuple([int(rs.randint(4, 7))] * ndim) if ndim == 2 else tuple([int(rs.randint(3, 5))] * ndim)
    shape = tuple(2 * r + 8 for r in radius)
    params = np.zeros((n, nvars))
    images, meshes, masks = [None] * len(clusters), [None] * len(clusters), [None] * len(clusters)
    truth = np.zeros((n, nvars))
    for ci, cl in enumerate(clusters):
        centre = np.array([s / 2.0 for s in shape])
        coords = centre + rs.uniform(-3.0, 3.0, (len(cl), ndim))
        full = rs.uniform(0, 4, shape)
        bgv = rs.uniform(3, 20)
        for j, i in enumerate(cl):
            params[i, 0] = bgv + (rs.uniform(-1, 1) if rs.rand() < 0.5 else 0.0)
            params[i, 1] = rs.uniform(40, 200)
            params[i, 2:2 + ndim] = coords[j] + rs.uniform(-0.4, 0.4, ndim)
            nsz = 1 if iso else ndim
            params[i, 2 + ndim:2 + ndim + nsz] = base_size * rs.uniform(0.8, 1.25, nsz)
            if fn == "ring":
                params[i, -1] = rs.uniform(0.12, 0.45)
            truth[i] = params[i] * rs.uniform(0.9, 1.1, nvars)
            truth[i, 2:2 + ndim] = coords[j]
        # synthetic image: noise + blobs at the `true` parameters
        idx = np.indices(shape).astype(np.float64)
        full = full + bgv
        for j, i in enumerate(cl):
            sz = truth[i, 2 + ndim:2 + ndim + (1 if iso else ndim)]
            sz = np.broadcast_to(sz, (ndim,))
            r2 = sum(((idx[d] - coords[j][d]) / sz[d]) ** 2 for d in range(ndim))
            if fn == "gauss":
                full = full + truth[i, 1] * np.exp(-0.5 * ndim * r2)
            else:
                t = truth[i, -1]
                full = full + truth[i, 1] * np.exp(-0.5 * ndim * ((np.sqrt(r2) - 1 + t) / t) ** 2)
        images[ci], meshes[ci], masks[ci] = make_subimage(coords, full, radius)
    # make the starting array consistent with the modes (as refine_leastsq does with np.mean), then
    # perturb the vector: an arbitrary admissible point
    v0 = vect_from_params(params, ff.modes, groups, operation=np.mean)
    v = v0 * rs.uniform(0.97, 1.03, len(v0)) + rs.uniform(-0.05, 0.05, len(v0))
    return ff, groups, params, v, images, meshes, masks


def ring_margin(ff, groups, params, v, meshes, masks, clusters, ndim):
    """smallest |dist - 1| over masked pixels (the NaN cut of the _safe r2 variants)"""
    from trackpy.refine.least_squares import vect_to_params
    p = vect_to_params(v, params, ff.modes, groups)
    best = np.inf
    for cl, mesh, mk in zip(clusters, meshes, masks):
        for j, i in enumerate(cl):
            d = sum((mesh[a][mk[j]] - p[i, 2 + a]) ** 2 for a in range(ndim))
            if d.size:
                best = min(best, float(np.min(np.abs(d - 1.0))))
    return best


def lsq_line(inp, ff, groups, params, v, images, meshes, masks, clusters):
    geo = GEOS.index((inp["ndim"], bool(inp["iso"])))
    n, nvars = params.shape
    toks = [geo, FNS.index(inp["fn"]), n, nvars] + [int(m) for m in ff.modes] + enc_groups(groups)
    toks += [f2b(x) for x in params.ravel()]
    toks += [len(v)] + [f2b(x) for x in v] + [f2b(inp["norm"]), len(clusters)]
    for cl, im, mesh, mk in zip(clusters, images, meshes, masks):
        toks += [len(cl)] + list(cl) + [len(im)] + [f2b(x) for x in im]
        toks += [f2b(x) for x in mesh.T.ravel()]
        toks += [int(b) for b in mk.ravel()]
    return "LSQ " + " ".join(map(str, toks))


def fd_gradient(residual, v):
    g = np.zeros(len(v))
    for m in range(len(v)):
        h = 2e-4 * max(1.0, abs(v[m]))

        def cd(hh):
            a = v.copy(); a[m] += hh
            b = v.copy(); b[m] -= hh
            return (residual(a) - residual(b)) / (2 * hh)
        g[m] = (4 * cd(h / 2) - cd(h)) / 3
    return g


def vect_labels(ff, n, groups):
    """which (parameter, mode) every vector component belongs to"""
    lab = []
    for name, m in zip(ff.params, ff.modes):
        if m == 0:
            continue
        elif m == 1:
            lab += [(name, m)] * n
        elif m == 2 or groups is None:
            lab += [(name, m)]
        else:
            lab += [(name, m)] * len(groups[m - 3])
    return lab


def run_grad_case(ctx, inp):
    res = Result()
    clusters = inp["clusters"]
    ndim = inp["ndim"]
    built = None
    for attempt in range(12):
        ff, groups, params, v, images, meshes, masks = build_grad(inp, attempt)
        if inp["fn"] != "ring" or ring_margin(ff, groups, params, v, meshes, masks, clusters, ndim) > 0.02:
            built = True
            break
    if not built:
        res.borderline = True
        res.stat("grad_borderline")
        return res
    if not ff.has_jacobian:
        res.violation("harness-error", "has_jacobian False for %s" % inp["fn"])
        return res
    residual, jacobian = ff.get_residual(images, meshes, masks, params, groups, inp["norm"])
    if len(v) == 0:
        res.stat("grad_empty_vector")
        return res
    with np.errstate(all="ignore"):
        r_code = float(residual(v))
        j_code = np.asarray(jacobian(v), dtype=np.float64)
        fd = fd_gradient(residual, v)
    labels = vect_labels(ff, inp["n"], groups)
    gn = float(np.max(np.abs(j_code))) if len(j_code) else 0.0
    key = "%dd_%s_%s" % (ndim, "iso" if inp["iso"] else "aniso", inp["fn"])
    res.stat("grad_cases")
    res.stat("grad_" + key)
    res.stat("grad_nfeat_%d" % inp["n"])
    res.stat("grad_nclusters_%d" % len(clusters))
    res.stat("grad_groups_none" if groups is None else "grad_groups_given")
    for name, m in set(labels):
        res.stat("grad_comp_%s_mode%d" % (name if name in ("background", "signal", "thickness") else
                                          ("size" if name.startswith("size") else "pos"), m))
    res.stat("grad_components", len(v))
    shared = any(m >= 2 for m in ff.modes)
    res.nontrivial = (inp["n"] >= 2 or shared) and gn > 0
    sig = dict(stream="grad", fn=inp["fn"], ndim=ndim, iso=bool(inp["iso"]))

    # ---- direct oracle: finite differences of the code's residual vs the code's jacobian
    bad_fd = [m for m in range(len(v)) if not abs(fd[m] - j_code[m]) <= 1e-5 * gn + 1e-9]
    # ---- correspondence: Float mirror of the proved formulas
    line = lsq_line(inp, ff, groups, params, v, images, meshes, masks, clusters)
    r = common.kv(ctx.ask(line))
    if "res" not in r:
        res.violation("harness-error", "driver: %r" % (r,))
        return res
    r_mod = b2f(r["res"])
    j_mod = np.array([b2f(x) for x in r["jac"].split(",")]) if r.get("jac") not in (None, True, "") else np.zeros(0)
    res.stat("grad_nan_pixels", int(r["nan"]))
    res.stat("grad_cut_terms", int(r["cut"]))
    res.stat("grad_active_terms", int(r["act"]))
    if int(r["nan"]):
        res.stat("grad_cases_with_nan_pixels")
    if int(r["cut"]):
        res.stat("grad_cases_with_cut_terms")
    bad_m = []
    if len(j_mod) != len(j_code):
        bad_m = list(range(len(j_code)))
    else:
        bad_m = [m for m in range(len(v)) if not abs(j_mod[m] - j_code[m]) <= 1e-9 * gn + 1e-300]
    bad_r = not abs(r_mod - r_code) <= 1e-9 * abs(r_code) + 1e-300

    if bad_fd:
        m = bad_fd[0]
        res.violation("property-violation",
                      "jacobian component %d (%s, mode %d) = %.12g but finite differences of the "
                      "residual give %.12g (max|jac| %.3g); mirror of the proved derivative: %s"
                      % (m, labels[m][0], labels[m][1], j_code[m], fd[m], gn,
                         j_mod[m] if len(j_mod) == len(j_code) else "n/a"),
                      impl=dict(jac=j_code.tolist(), fd=fd.tolist(), residual=r_code),
                      model=dict(jac=j_mod.tolist(), residual=r_mod),
                      signature=dict(sig, what="gradient", param=labels[m][0], mode=labels[m][1]))
    elif bad_m or bad_r:
        what = "residual" if bad_r and not bad_m else "jacobian"
        m = bad_m[0] if bad_m else -1
        res.violation("correspondence-break",
                      "%s differs from the Float mirror (component %d %s): code %.17g, mirror %.17g"
                      % (what, m, labels[m] if bad_m else "", j_code[m] if bad_m else r_code,
                         (j_mod[m] if len(j_mod) == len(j_code) else float("nan")) if bad_m else r_mod),
                      impl=dict(jac=j_code.tolist(), residual=r_code),
                      model=dict(jac=j_mod.tolist(), residual=r_mod),
                      broken="Lsq.residual / Lsq.gradRows (Float instance)",
                      signature=dict(sig, what="mirror-" + what))
    elif res.nontrivial:
        err_fd = float(np.max(np.abs(fd - j_code))) / gn if gn else 0.0
        err_m = float(np.max(np.abs(j_mod - j_code))) / gn if gn else 0.0
        res.stat("grad_fd_relerr_below_1e-7" if err_fd < 1e-7 else "grad_fd_relerr_1e-7_to_1e-5")
        res.stat("grad_mirror_relerr_below_1e-12" if err_m < 1e-12 else "grad_mirror_relerr_1e-12_to_1e-9")
        res.sample = dict(input=dict((k, inp[k]) for k in ("ndim", "iso", "fn", "n", "clusters", "param_mode")),
                          modes=[int(m) for m in ff.modes], residual=r_code, max_abs_jac=gn,
                          fd_relerr=err_fd, mirror_relerr=err_m)
    return res


def run_case(ctx, inp):
    if inp.get("stream") == "pack":
        return run_pack_case(ctx, inp)
    return run_grad_case(ctx, inp)
