"""C18 — drift is the mean frame-to-frame displacement, and subtracting it removes it.

One stream of trajectory tables (positions on a k/8 grid) through the real
`trackpy.motion.compute_drift / subtract_drift`:

  * direct ORACLE (written from the property statement, Python `Fraction`s, dictionaries — no
    sorting, independent of the Lean model): drift values and measured frames, row-order
    independence, pointwise subtraction (unmeasured frames unchanged), other columns / row set
    preserved, caller's table untouched (deep copy compared with `assert_frame_equal`, index
    names included), re-measured drift zero and rigid motion removed under the property's
    hypothesis "every frame after the first measured one contributes a displacement".
  * CORRESPONDENCE (function mode) with the Lean model `Model/Drift.lean` (`C18DRIFT`, `C18SUB`):
    drift curves, output row order and values, re-measured drift — also where the hypothesis
    fails (there the theorems say nothing, the model still has to agree with the code).
  * SMOOTHING (a deterministic third of the cases): `compute_drift(t, smoothing=k)`, k in
    {1, 2, 3, 5}, against the direct definition (trailing rolling mean over the measured frames of
    the oracle's own mean displacements, `min_periods=0`, then cumulative sum, in `Fraction`s) and
    against `Model/DriftSmooth.lean` (`C18SMOOTH`).
"""
from fractions import Fraction

import numpy as np

from . import common
from .common import Result

PROP = "C18"
RULE = ("tables of 1-8 particles x 2-15 frames, positions k/8, particles entering/leaving, "
        "per-particle gaps and globally missing frames (unmeasured frames), arbitrary row order, "
        "2-D/3-D, extra columns in random column order, index layouts {RangeIndex, shuffled ints, "
        "named 'idx', named 'frame' (column kept), named 'particle' (column kept)}; drift=None, "
        "explicit own drift, drift of a column subset, foreign curve with frames outside the table; "
        "rigid stream = zero-drift base + common motion; every third table also with smoothing = "
        "1, 2, 3, 5.  Non-trivial = >=2 measured frames and a "
        "frame whose mean averages >=2 displacements; distinct = distinct canonical input.")
ASSUMPTIONS = [
    "positions are k/8 so every difference is exact in float64; means/cumulative sums carry "
    "rounding ~1e-15, compared with tolerance 1e-9 (relative to max(1,|v|))",
    "smoothing in {0, 1, 2, 3, 5}; subtract_drift and the re-measured drift are exercised with the "
    "unsmoothed curve (smoothing = 0) only",
    "tables are valid trajectory tables: no two rows share (particle, frame) (the driver "
    "re-checks this hypothesis of the theorems on every case)",
    "the drift is re-measured on subtract_drift's output after reset_index(drop=True) (the "
    "MultiIndex layout of that output is C20's subject)",
]
MIN_NONTRIVIAL = 20
TOL = 1e-9
NAMES = ["x", "y", "z"]
LAYOUTS = ["range", "shuffled", "idx", "frame", "particle", "frame_stale"]


def init(ctx):
    common.setup_repo_path()


# ------------------------------------------------------------------------------------------
# generation

def _walk(rng, n, step):
    out, cur = [], [rng.randint(-80, 80) for _ in range(3)]
    for _ in range(n):
        out.append(list(cur))
        cur = [c + rng.randint(-step, step) for c in cur]
    return out


def gen_table(rng, i):
    ndim = rng.choice([2, 2, 3])
    mode = rng.choice(["dense", "dense", "gappy", "sparse", "rigid", "rigid"])
    npart = rng.randint(1, 8)
    nfr = rng.randint(2, 15)
    start = rng.choice([0, 0, 1, 7, 100, -3])
    frames = list(range(start, start + nfr))
    missing = set()
    if mode in ("gappy", "sparse") or (mode == "rigid" and rng.random() < 0.3):
        pm = rng.choice([0.1, 0.25])
        missing = {f for f in frames[1:-1] if rng.random() < pm}
    common_motion = _walk(rng, nfr, rng.choice([0, 4, 16]))
    pids = rng.sample(range(0, 40), npart)
    rows = []
    rigid = None
    if mode == "rigid":
        rigid = {str(f): common_motion[j][:ndim] for j, f in enumerate(frames)}
    kinds = []
    if mode == "rigid":
        # zero-drift base: static particles, or pairs moving oppositely over the same frames
        while len(kinds) < npart:
            if npart - len(kinds) >= 2 and rng.random() < 0.5:
                kinds += ["walker", "mirror"]
            else:
                kinds.append("static")
    prev = None
    for n_, p in enumerate(pids):
        if mode == "dense" and n_ == 0:
            a, b = 0, nfr - 1
        else:
            a = rng.randint(0, nfr - 1)
            b = rng.randint(a, nfr - 1)
            if rng.random() < 0.4:
                a = 0
            if rng.random() < 0.4:
                b = nfr - 1
        pg = {"dense": 0.0, "gappy": 0.15, "sparse": 0.4, "rigid": rng.choice([0.0, 0.0, 0.2])}[mode]
        if mode == "rigid" and kinds[n_] == "mirror":
            a, b, pown, gaps = prev
            base = [rng.randint(-80, 80) for _ in range(3)]
            own = [[base[k] - (o[k] - pown[0][k]) for k in range(3)] for o in pown]
        else:
            if mode == "rigid" and kinds[n_] == "static":
                c0 = [rng.randint(-80, 80) for _ in range(3)]
                own = [list(c0) for _ in range(nfr)]
            else:
                own = _walk(rng, nfr, rng.choice([0, 8, 24]))
            gaps = {j for j in range(a + 1, b) if rng.random() < pg}
        prev = (a, b, own, gaps)
        for j in range(a, b + 1):
            f = frames[j]
            if f in missing or j in gaps:
                continue
            pos = [own[j][k] + common_motion[j][k] for k in range(ndim)]
            rows.append(dict(p=p, f=f, pos=pos, mass=rng.randint(1, 999)))
    if not rows:
        rows.append(dict(p=pids[0], f=frames[0], pos=[0] * ndim, mass=1))
    rng.shuffle(rows)
    lbls = rng.sample(range(0, 10 * len(rows) + 5), len(rows))
    for r, l in zip(rows, lbls):
        r["lbl"] = l
    cols = NAMES[:ndim] + ["mass", "frame", "particle", "tag"]
    rng.shuffle(cols)
    xd = rng.choice([None, None, "own", "subset", "foreign"])
    foreign = None
    if xd == "foreign":
        fr = sorted(rng.sample(range(start - 2, start + nfr + 2), rng.randint(1, nfr)))
        foreign = {str(f): [rng.randint(-40, 40) for _ in range(ndim)] for f in fr}
    out = dict(stream="table", ndim=ndim, mode=mode, rows=rows, cols=cols,
               layout=LAYOUTS[i % len(LAYOUTS)] if rng.random() < 0.7 else rng.choice(LAYOUTS),
               shuffle2=rng.randint(0, 10 ** 6), xdrift=xd, foreign=foreign, rigid=rigid)
    # whole-pixel positions stored in an INTEGER column (pixel coordinates of maxima, rounded
    # positions): the measured drift is still fractional (a mean), so position - drift is not
    if rng.random() < 0.2:
        for r in rows:
            r["pos"] = [8 * v for v in r["pos"]]
        if rigid is not None:
            out["rigid"] = {f: [8 * v for v in vv] for f, vv in rigid.items()}
        out["int_pos"] = rng.choice(["int64", "int32"])
    return out


def gen_cases(ctx):
    for inp in ctx.corpus():
        yield inp
    for i in range(ctx.n(900, 15000)):
        yield gen_table(ctx.rng("table", i), i)


# ------------------------------------------------------------------------------------------
# oracle (dictionary based, Fractions)

def F8(k):
    return Fraction(k, 8)


def oracle_drift(obs, ndim):
    """obs: {(p, f): [Fraction]*ndim}.  Returns (measured frames ascending, {f: drift vector},
    {f: number of displacements}, hypothesis)"""
    frames = sorted({f for _, f in obs})
    disp = {}
    for (p, f), x in obs.items():
        y = obs.get((p, f - 1))
        if y is not None:
            disp.setdefault(f, []).append([x[k] - y[k] for k in range(ndim)])
    measured = [f for f in frames if f in disp]
    cum = [Fraction(0)] * ndim
    drift = {}
    for f in measured:
        n = len(disp[f])
        cum = [cum[k] + sum(d[k] for d in disp[f]) / n for k in range(ndim)]
        drift[f] = list(cum)
    hyp = bool(measured) and all(f in disp for f in frames if f > measured[0])
    return measured, drift, {f: len(v) for f, v in disp.items()}, hyp


def close(a, b):
    a, b = float(a), float(b)
    return abs(a - b) <= TOL * max(1.0, abs(a), abs(b))


# ------------------------------------------------------------------------------------------
# implementation side

def build_frame(inp, order=None):
    import pandas as pd
    rows = inp["rows"]
    idx = list(range(len(rows))) if order is None else order
    data = {}
    nd = inp["ndim"]
    for c in inp["cols"]:
        if c in NAMES:
            k = NAMES.index(c)
            data[c] = np.array([rows[i]["pos"][k] / 8.0 for i in idx], dtype=float)
            if inp.get("int_pos"):
                data[c] = data[c].astype(inp["int_pos"])
        elif c == "mass":
            data[c] = np.array([rows[i]["mass"] for i in idx], dtype=np.int64)
        elif c == "frame":
            data[c] = np.array([rows[i]["f"] for i in idx], dtype=np.int64)
        elif c == "particle":
            data[c] = np.array([rows[i]["p"] for i in idx], dtype=np.int64)
        elif c == "tag":
            data[c] = np.array([i for i in idx], dtype=np.int64)
    t = pd.DataFrame(data, columns=inp["cols"])
    lay = inp["layout"]
    if lay == "shuffled":
        t.index = pd.Index([rows[i]["lbl"] for i in idx])
    elif lay == "idx":
        t.index = pd.Index([rows[i]["lbl"] for i in idx], name="idx")
    elif lay == "frame":
        t = t.set_index("frame", drop=False)
    elif lay == "particle":
        t = t.set_index("particle", drop=False)
    elif lay == "frame_stale":
        # an index NAMED 'frame' whose labels are no longer the frame numbers (the column was
        # renumbered / rebinned after the index had been set): the column is what counts
        import pandas as pd
        vals = t["frame"].values
        t.index = pd.Index([int(v) * 2 + 3 for v in vals[::-1]], name="frame")
    assert nd == sum(1 for c in inp["cols"] if c in NAMES)
    return t


def caller_diff(t, before):
    """None if the caller's table is unchanged, else (what, message)"""
    from pandas.testing import assert_frame_equal
    try:
        assert_frame_equal(t, before, check_exact=True)
        if list(t.index.names) != list(before.index.names):
            raise AssertionError("index names %r != %r" % (t.index.names, before.index.names))
        return None
    except AssertionError as e:
        msg = str(e)[:300]
    if list(t.index.names) != list(before.index.names):
        probe = t.copy(deep=True)
        try:
            probe.index.names = list(before.index.names)
            assert_frame_equal(probe, before, check_exact=True)
            return ("caller-index-renamed", "caller's index name changed %r -> %r"
                    % (list(before.index.names), list(t.index.names)))
        except Exception:
            pass
    return ("caller-table-modified", msg)


def curve_of(d, ndim):
    """drift DataFrame -> (frames, {name: [values]})"""
    frames = [int(f) for f in d.index]
    return frames, {c: [float(v) for v in d[c].values] for c in d.columns}


def rows_line(inp):
    return "; ".join("%d %d %d %s" % (r["p"], r["f"], i, " ".join(common.rat_str(F8(k)) for k in r["pos"]))
                     for i, r in enumerate(inp["rows"]))


def parse_curve(s):
    out = []
    for tok in (s or "").split(","):
        if tok:
            f, v = tok.split(":")
            out.append((int(f), Fraction(v)))
    return out


SMOOTHINGS = [1, 2, 3, 5]


def oracle_smoothed(measured, odrift, nd, w):
    """the direct definition of compute_drift(smoothing=w), w >= 1, from the oracle's own numbers: mean
    displacement per measured frame (increments of the unsmoothed oracle curve), trailing rolling mean
    over the last min(w, j+1) MEASURED frames, cumulative sum.  Returns {f: [Fraction]*nd}."""
    md, prev = [], [Fraction(0)] * nd
    for f in measured:
        md.append([odrift[f][k] - prev[k] for k in range(nd)])
        prev = odrift[f]
    out, cum = {}, [Fraction(0)] * nd
    for j, f in enumerate(measured):
        lo = max(0, j - w + 1)
        sm = [sum(md[i][k] for i in range(lo, j + 1)) / (j + 1 - lo) for k in range(nd)]
        cum = [cum[k] + sm[k] for k in range(nd)]
        out[f] = list(cum)
    return out


def _check_smoothed(ctx, inp, res, nd, names, line, measured, odrift, pv):
    from trackpy.motion import compute_drift
    for w in SMOOTHINGS:
        t = build_frame(inp)
        before = t.copy(deep=True)
        try:
            d = compute_drift(t, smoothing=w)
        except Exception as e:
            pv("compute_drift-raises", "compute_drift(smoothing=%d) raised %s: %s"
               % (w, type(e).__name__, str(e)[:200]))
            return
        cd = caller_diff(t, before)
        if cd is not None:
            pv(cd[0], "compute_drift(smoothing=%d): %s" % (w, cd[1]), impl=cd[1])
        fr, cv = curve_of(d, nd)
        osm = oracle_smoothed(measured, odrift, nd, w)
        res.stat("smoothed_compared")
        res.stat("smoothing_%d" % w)
        if len(measured) > w:
            res.stat("smoothed_window_full")
        ok_oracle = (fr == measured and sorted(cv) == sorted(names)
                     and all(close(cv[c][j], osm[f][NAMES.index(c)]) for c in cv for j, f in enumerate(fr)))
        if not ok_oracle:
            pv("smoothed-drift-value", "compute_drift(smoothing=%d) differs from the cumulative sum of the "
               "rolling mean (last %d measured frames, min_periods=0) of the mean displacements" % (w, w),
               impl=dict(frames=fr, values=cv),
               model=dict(frames=measured, values={NAMES[k]: [str(osm[f][k]) for f in measured]
                                                   for k in range(nd)}))
            return
        m = common.kv(ctx.ask("C18SMOOTH %d %d | %s" % (w, nd, line)))
        mfr = [int(x) for x in m["frames"].split(",") if x] if isinstance(m.get("frames"), str) else []
        mc = [parse_curve(m.get("s%d" % k) if isinstance(m.get("s%d" % k), str) else "") for k in range(nd)]
        ok_model = (m.get("nodup") == "1" and m.get("rect") == "1" and fr == mfr
                    and all([f for f, _ in mc[k]] == fr for k in range(nd))
                    and all(close(cv[NAMES[k]][j], mc[k][j][1]) for k in range(nd) for j in range(len(fr))))
        if not ok_model:
            res.violation("correspondence-break", "model smoothed drift (smoothing=%d) differs from "
                          "compute_drift" % w, impl=dict(frames=fr, values=cv), model=m,
                          broken="driftSmoothedCol / rollingMean",
                          signature=dict(what="smoothed-drift", smoothing=w))
            return
        # the model against the direct definition, exactly (both are rationals)
        if any(mc[k][j][1] != osm[f][k] for k in range(nd) for j, f in enumerate(fr)):
            res.violation("correspondence-break", "model smoothed drift (smoothing=%d) differs from the "
                          "direct definition although both agree with the code within 1e-9" % w,
                          impl=dict(frames=fr, values=cv), model=m, broken="driftSmoothedCol / rollingMean",
                          signature=dict(what="smoothed-drift", smoothing=w, exact=True))
            return


RENAMES = [["x0", "x1", "x2"], ["xc", "yc", "zc"], ["x_um", "y_um", "z_um"], ["col", "row", "plane"],
           ["X", "Y", "Z"], ["pos_a", "pos_b", "pos_c"], [0, 1, 2]]


def _check_renamed(inp, res, nd, names, pv):
    """The statement is about "2D/3D position columns", whatever they are called: the same table with
    its position columns RENAMED (compute_drift(pos_columns=new names), subtract_drift with that
    drift) must give the same numbers as the run above, which the oracle has already judged."""
    import random
    import numpy as np
    from trackpy.motion import compute_drift, subtract_drift
    rng = random.Random(repr(inp["rows"][:4]) + str(nd))
    if rng.random() > 0.5:
        return
    new = rng.choice(RENAMES)[:nd]
    fwd = dict(zip(names, new))
    back = dict(zip(new, names))
    t = build_frame(inp)
    try:
        d1 = compute_drift(t.copy(deep=True), pos_columns=names)
        s1 = subtract_drift(t.copy(deep=True), d1)
    except Exception:
        return
    try:
        t2 = t.rename(columns=fwd)
        d2 = compute_drift(t2.copy(deep=True), pos_columns=new)
        s2 = subtract_drift(t2.copy(deep=True), d2)
    except Exception as e:
        pv("renamed-columns-raise", "position columns called %s: %s: %s" % (new, type(e).__name__,
                                                                          str(e)[:200]))
        return
    res.stat("renamed_columns_compared")
    d2b, s2b = d2.rename(columns=back), s2.rename(columns=back)

    def same(a, b):
        if list(a.columns) != list(b.columns) or len(a) != len(b) \
                or list(a.index.values) != list(b.index.values):
            return False
        for c in a.columns:
            va, vb = a[c].values, b[c].values
            try:
                if not np.array_equal(va.astype(float), vb.astype(float), equal_nan=True):
                    return False
            except (TypeError, ValueError):
                if list(va) != list(vb):
                    return False
        return True
    if not same(d1, d2b):
        pv("renamed-columns-drift", "compute_drift with position columns called %s differs from the "
           "same table with columns %s" % (new, names), impl=d2b.head(8).to_dict("list"),
           model=d1.head(8).to_dict("list"))
    elif not same(s1, s2b):
        pv("renamed-columns-subtract", "subtract_drift with position columns called %s (drift from "
           "compute_drift(pos_columns=...)) differs from the same table with columns %s"
           % (new, names), impl=s2b.head(8).to_dict("list"), model=s1.head(8).to_dict("list"))


def run_case(ctx, inp):
    import pandas as pd
    from trackpy.motion import compute_drift, subtract_drift
    res = Result()
    nd, rows, lay = inp["ndim"], inp["rows"], inp["layout"]
    names = NAMES[:nd]
    obs = {(r["p"], r["f"]): [F8(k) for k in r["pos"]] for r in rows}
    assert len(obs) == len(rows), "generator produced duplicate (particle, frame)"
    measured, odrift, ocount, hyp = oracle_drift(obs, nd)
    res.nontrivial = len(measured) >= 2 and any(ocount[f] >= 2 for f in measured)
    res.stat("cases")
    res.stat("layout_" + lay)
    res.stat("ndim_%d" % nd)
    res.stat("mode_" + str(inp.get("mode")))
    res.stat("rows_total", len(rows))
    res.stat("hypothesis_true" if hyp else "hypothesis_false")
    allframes = sorted({r["f"] for r in rows})
    if any(f not in ocount for f in allframes[1:]):
        res.stat("has_unmeasured_later_frame")
    if not measured:
        res.stat("no_displacement_at_all")
    sig0 = dict(layout=lay)

    def pv(what, msg, **kw):
        res.violation("property-violation", msg, signature=dict(sig0, what=what), **kw)

    # ---- model --------------------------------------------------------------------------
    line = rows_line(inp)
    m = common.kv(ctx.ask("C18DRIFT %d | %s" % (nd, line)))
    if m.get("nodup") != "1" or m.get("rect") != "1":
        res.violation("harness-error", "model rejects the table: %r" % m)
        return res
    mframes = [int(x) for x in m["frames"].split(",") if x] if isinstance(m.get("frames"), str) else []
    mcurves = [parse_curve(m.get("c%d" % k) if isinstance(m.get("c%d" % k), str) else "") for k in range(nd)]
    res.stat("model_contig" if m.get("contig") == "1" else "model_not_contig")
    if (m.get("later") == "1") != hyp and measured:
        res.violation("correspondence-break", "hypothesis LaterFramesMeasured: model %s, oracle %s"
                      % (m.get("later"), hyp), broken="laterFramesMeasuredB", model=m,
                      signature=dict(what="hypothesis-differs"))

    # ---- compute_drift ------------------------------------------------------------------
    t = build_frame(inp)
    before = t.copy(deep=True)
    pc = None
    if inp.get("poscols") == "explicit":
        pc = names
    try:
        d = compute_drift(t) if pc is None else compute_drift(t, pos_columns=pc)
    except Exception as e:  # the property promises a value for every trajectory table
        pv("compute_drift-raises", "compute_drift raised %s: %s" % (type(e).__name__, str(e)[:200]))
        return res
    cd = caller_diff(t, before)
    if cd is not None:
        pv(cd[0], "compute_drift: " + cd[1], impl=cd[1])
        t = before.copy(deep=True)
    fr, cv = curve_of(d, nd)
    ok_oracle = (fr == measured and sorted(cv) == sorted(names)
                 and all(close(cv[c][j], odrift[f][NAMES.index(c)]) for c in cv for j, f in enumerate(fr)))
    if not ok_oracle:
        pv("drift-value", "compute_drift differs from the mean-displacement definition",
           impl=dict(frames=fr, values=cv),
           model=dict(frames=measured, values={NAMES[k]: [str(odrift[f][k]) for f in measured] for k in range(nd)}))
    ok_model = (fr == mframes and all([f for f, _ in mcurves[k]] == fr for k in range(nd))
                and all(close(cv[NAMES[k]][j], mcurves[k][j][1]) for k in range(nd) if NAMES[k] in cv
                        for j in range(len(fr))))
    if ok_oracle and not ok_model:
        res.violation("correspondence-break", "model drift differs from compute_drift",
                      impl=dict(frames=fr, values=cv), model=m, broken="computeDriftCol / drift_def",
                      signature=dict(what="model-drift-differs"))

    # ---- smoothing > 0: rolling mean of the mean displacements, then the cumulative sum -
    if ok_oracle and inp.get("shuffle2", 0) % 3 == 0:
        _check_smoothed(ctx, inp, res, nd, names, line, measured, odrift, pv)

    # ---- row-order independence --------------------------------------------------------
    order = list(range(len(rows)))
    import random
    random.Random(inp.get("shuffle2", 0)).shuffle(order)
    t2 = build_frame(inp, order)
    try:
        d2 = compute_drift(t2)
        fr2, cv2 = curve_of(d2, nd)
        if fr2 != fr or any(not close(a, b) for c in cv for a, b in zip(cv[c], cv2[c])):
            pv("row-order-dependence", "compute_drift changes when rows are permuted",
               impl=dict(first=dict(frames=fr, values=cv), second=dict(frames=fr2, values=cv2)))
    except Exception as e:
        pv("compute_drift-raises", "compute_drift (permuted rows) raised %s: %s"
           % (type(e).__name__, str(e)[:200]))

    # ---- the same table in another length unit ------------------------------------------
    # the drift is a mean of displacements: multiplying every position by a power of two (exact in
    # binary floating point) must multiply the curve by the same factor, however small the unit
    kpow = [-50, -40, 30][(len(rows) + nd) % 3]
    if not inp.get("int_pos"):
        t3 = build_frame(inp)
        for c in names:
            t3[c] = t3[c] * 2.0 ** kpow
        try:
            d3 = compute_drift(t3) if pc is None else compute_drift(t3, pos_columns=pc)
            fr3, cv3 = curve_of(d3, nd)
            if fr3 != fr or any(not (a * 2.0 ** kpow == b or (a != a and b != b))
                                for c in cv for a, b in zip(cv[c], cv3[c])):
                pv("unit-dependence", "compute_drift of the table with every position multiplied by 2^%d is "
                   "not 2^%d times the drift" % (kpow, kpow),
                   impl=dict(frames=fr3, values={c: [v / 2.0 ** kpow for v in cv3[c]] for c in cv3}),
                   model=dict(frames=fr, values=cv))
            res.stat("unit_scale_checked")
        except Exception as e:
            pv("compute_drift-raises", "compute_drift (positions times 2^%d) raised %s: %s"
               % (kpow, type(e).__name__, str(e)[:200]))

    # ---- subtract_drift ----------------------------------------------------------------
    xd = inp.get("xdrift")
    res.stat("drift_arg_" + str(xd))
    t = build_frame(inp)
    before = t.copy(deep=True)
    used = {}          # frame -> vector actually to be subtracted (oracle side)
    drift_arg = None
    model_req = "own"
    if xd is None:
        used = odrift
    elif xd == "own":
        drift_arg = d
        used = odrift
    elif xd == "subset":
        drift_arg = compute_drift(before.copy(deep=True), pos_columns=["x"])
        used = {f: [v[0]] + [Fraction(0)] * (nd - 1) for f, v in odrift.items()}
        model_req = "x | " + " ; ".join(
            [",".join("%d:%s" % (f, common.rat_str(used[f][0])) for f in measured)] + [""] * (nd - 1))
    elif xd == "foreign":
        fo = inp["foreign"]
        ffr = sorted(int(f) for f in fo)
        drift_arg = pd.DataFrame({NAMES[k]: [fo[str(f)][k] / 8.0 for f in ffr] for k in range(nd)},
                                 index=pd.Index(ffr, name="frame"))
        used = {f: [F8(fo[str(f)][k]) for k in range(nd)] for f in ffr}
        model_req = "x | " + " ; ".join(
            ",".join("%d:%s" % (f, common.rat_str(used[f][k])) for f in ffr) for k in range(nd))
    try:
        s = subtract_drift(t) if drift_arg is None else subtract_drift(t, drift_arg)
    except Exception as e:
        pv("subtract_drift-raises", "subtract_drift raised %s: %s" % (type(e).__name__, str(e)[:200]))
        return res
    cd = caller_diff(t, before)
    if cd is not None:
        pv(cd[0], "subtract_drift: " + cd[1], impl=cd[1])
    # rows / other columns / values
    bad = None
    if sorted(s.columns) != sorted(before.columns):
        bad = ("other-column-changed", "columns %r -> %r" % (list(before.columns), list(s.columns)))
    elif len(s) != len(rows) or sorted(int(v) for v in s["tag"].values) != list(range(len(rows))):
        bad = ("rows-changed", "row set changed: %d rows in, %d out" % (len(rows), len(s)))
    else:
        tags = [int(v) for v in s["tag"].values]
        for j, i in enumerate(tags):
            r = rows[i]
            if (int(s["frame"].values[j]) != r["f"] or int(s["particle"].values[j]) != r["p"]
                    or int(s["mass"].values[j]) != r["mass"]):
                bad = ("other-column-changed", "row tag=%d: frame/particle/mass changed" % i)
                break
            sub = used.get(r["f"], [Fraction(0)] * nd)
            for k in range(nd):
                want = F8(r["pos"][k]) - sub[k]
                got = s[NAMES[k]].values[j]
                if not (np.isfinite(got) and close(got, want)):
                    bad = ("subtracted-value", "row tag=%d (frame %d) column %s: got %r, expected %s"
                           % (i, r["f"], NAMES[k], float(got), want))
                    break
            if bad:
                break
        for c in ("mass", "frame", "particle", "tag"):
            if not bad and s[c].dtype != before[c].dtype:
                bad = ("other-column-changed", "dtype of %s changed %s -> %s" % (c, before[c].dtype, s[c].dtype))
    if bad:
        pv(bad[0], "subtract_drift: " + bad[1], impl=bad[1])
    ms = common.kv(ctx.ask("C18SUB %d | %s | %s" % (nd, line, model_req)))
    if not isinstance(ms.get("rows"), str) and len(rows) > 0:
        res.violation("harness-error", "model C18SUB returned %r" % ms)
        return res
    if not bad:
        mrows = [tok.split(":") for tok in ms["rows"].split(",") if tok]
        mt = [int(x[0]) for x in mrows]
        itags = [int(v) for v in s["tag"].values]
        okm = mt == itags and all(close(s[NAMES[k]].values[j], Fraction(mrows[j][1 + k]))
                                  for j in range(len(mt)) for k in range(nd))
        if not okm:
            res.violation("correspondence-break", "model subtractDrift differs from subtract_drift "
                          "(row order or values)", impl=dict(tags=itags), model=ms,
                          broken="subtractDrift", signature=dict(what="model-subtract-differs"))

    # ---- re-measured drift on the output ----------------------------------------------
    if not bad:
        try:
            re_ = compute_drift(s.reset_index(drop=True))
        except Exception as e:
            pv("redrift-raises", "compute_drift on subtract_drift's output (index reset) raised %s: %s"
               % (type(e).__name__, str(e)[:200]))
            return res
        rfr, rcv = curve_of(re_, nd)
        if xd in (None, "own") and hyp:
            res.stat("redrift_zero_checked")
            worst = max([abs(v) for c in rcv for v in rcv[c]] or [0.0])
            if rfr != measured or worst > TOL:
                pv("redrift-nonzero", "hypothesis holds but the re-measured drift is not zero "
                   "(max |v| = %g) or its frames differ" % worst, impl=dict(frames=rfr, values=rcv))
        mre = [parse_curve(ms.get("r%d" % k) if isinstance(ms.get("r%d" % k), str) else "") for k in range(nd)]
        okr = all([f for f, _ in mre[k]] == rfr for k in range(nd)) and \
            all(close(rcv[NAMES[k]][j], mre[k][j][1]) for k in range(nd) for j in range(len(rfr)))
        if not okr and not res.viol:
            res.violation("correspondence-break", "model re-measured drift differs", impl=dict(frames=rfr, values=rcv),
                          model=ms, broken="computeDriftCol∘subtractDrift / redrift_zero",
                          signature=dict(what="model-redrift-differs"))

    # ---- rigid common motion ----------------------------------------------------------
    rg = inp.get("rigid")
    if rg and not bad and xd in (None, "own") and hyp:
        c = {int(f): [F8(v) for v in vec] for f, vec in rg.items()}
        base = {(p, f): [x[k] - c[f][k] for k in range(nd)] for (p, f), x in obs.items()}
        _, bdrift, _, _ = oracle_drift(base, nd)
        if all(v == 0 for vec in bdrift.values() for v in vec):
            res.stat("rigid_checked")
            m0 = measured[0]
            tags = [int(v) for v in s["tag"].values]
            for j, i in enumerate(tags):
                r = rows[i]
                if r["f"] < m0 - 1:
                    continue
                for k in range(nd):
                    want = base[(r["p"], r["f"])][k] + c[m0 - 1][k]
                    if not close(s[NAMES[k]].values[j], want):
                        pv("rigid-motion-left", "rigid common motion not removed: row tag=%d frame %d "
                           "column %s got %r expected %s" % (i, r["f"], NAMES[k],
                                                            float(s[NAMES[k]].values[j]), want))
                        break
                else:
                    continue
                break
        else:
            res.stat("rigid_base_not_driftfree")
    if not res.viol:
        _check_renamed(inp, res, nd, names, pv)
    if res.nontrivial and not res.viol:
        res.sample = dict(input=dict(rows=len(rows), ndim=nd, layout=lay, mode=inp.get("mode"),
                                     xdrift=xd), measured_frames=measured, hypothesis=hyp,
                          drift_x=[str(odrift[f][0]) for f in measured][:6])
    return res
