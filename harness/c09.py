"""C09 — feature finding does not depend on where or how the image is processed.

Streams (all through the real `trackpy` of $VERIF_REPO):

  shift      a content image (C06/C07-style textures and blob images, 2-D / 3-D, uint8 / uint16 /
             float) embedded at two random whole-pixel offsets in ONE black canvas with the padding
             the theorems ask for; `tp.locate` on both.  DIRECT ORACLE: same number of rows, every
             position differs by exactly the offset difference, every other column equal.
  transpose  an integer image and the same image with its axes permuted (2-D transpose; 3-D any
             permutation), `preprocess=False`, per-axis parameters permuted likewise.  DIRECT
             ORACLE: coordinate (and per-axis size / ep) columns permuted, every other column equal.
  batch      3-6 frames (some blank / featureless; plain arrays -> frame number = position, or
             arrays with a `frame_no` attribute, non-contiguous, unordered; list or minimal
             sequence class) through `tp.batch` with processes in {1, 2, 3} (sometimes 'auto').
             DIRECT ORACLE: every table is identical to the concatenation, in frame order, of
             `tp.locate(frame)` with the `frame` column set, empty results dropped.
  size       (inside shift / transpose / batch; `big` in the input) very long axes and frames above
             1 Mpx / 4 Mpx, rendered from a recipe; direct oracle only, nothing goes to the driver.
  stage      model correspondence for the stage-level facts: `Find.greyDilation` on the model's own
             `Locate.embed` / `Locate.revImg` images vs `tp.grey_dilation` on the numpy images
             (ops C09GD / C09GDT, which also re-check the theorems' decidable hypotheses and
             conclusions), `Refine.refineOne` (op C07REF) on shifted / transposed arrays vs
             `refine_com_arr`, `Bandpass.bandpass` (op BP) on two embeddings vs `tp.bandpass`,
             `Locate.batchModel` (op C09BATCH) vs the rows `tp.batch` returned, and
             `Locate.locateModel` (op C09LOC) vs the stage calls `locate` makes.
"""
import math
from fractions import Fraction

import numpy as np

from . import common
from .common import Result
from .c07 import _texture

PROP = "C09"
RULE = ("shift: content 2-D 10-36 px / 3-D 7-12 px per axis (blobs on noise, 2-6 level palettes, "
        "spikes, plateaus, ramps, flat), dtype uint8/uint16/float64, odd diameters 3-9 isotropic and "
        "per axis, separation default / custom, percentile {64,0,30,90}, minmass {0, a quantile}, "
        "maxsize / topn sometimes, max_iterations {10,1,3}, preprocess on/off, engine python / "
        "numba(interpreted); two random offsets in one canvas with padding >= halo + max(margin, "
        "radius + max_iterations) + 1 per side.  transpose: integer images, preprocess=False, "
        "2-D transpose (C-contiguous copy or strided view) and 3-D axis permutations.  batch: 3-6 "
        "frames of 28-44 px, ~1/3 of the frames featureless.  stage: small images (<= 12 px "
        "content) for the exact models.  SIZE classes (few per run, rendered from recipes, direct oracle "
        "only): shift in a canvas with one axis of 32.8k-36k / 40k / 65.6k-70k / 131k-134k px (2-D either "
        "axis, 3-D every 8th) with the content below / across / beyond pixel 2^15 and 2^16 and at the far "
        "end, dtype also float32; shift of a small content in a canvas above 1 Mpx / 4 Mpx and of a "
        "rendered content above 1 Mpx / 4 Mpx (every pixel non-zero); transpose of frames above 1 Mpx "
        "(round camera sizes and random), above 4 Mpx, with one axis beyond 2^15 / 2^16, and 250-520 px "
        "controls: uint8 / uint16, every pixel non-zero, background strictly rising ramp / flat pedestal "
        "/ 16-bit noise, interlaced rows or columns (period 2-8, multiplicative or additive, random "
        "phase), 60-260 blobs with all-different amplitudes from just above the background to several "
        "times its range; batch with one such frame (uint8 / uint16 / float32) among the small ones.  "
        "Non-trivial = at least one feature was located (shift, "
        "transpose), at least one non-empty frame and >= 2 process counts (batch), a non-empty "
        "maxima / feature list (stage); distinct = distinct canonical input.")
ASSUMPTIONS = [
    "columns are compared at 1e-9 relative (positions: 1e-9 absolute on a scale of the canvas size; "
    "ecc: 1e-9*(mass/(mass-signal+1e-6)+|ecc|) absolute because its numerator sums cancel; ep: 1e-9 "
    "relative + 1e-12): integer images make mass, signal, raw_mass exact, the float statistics "
    "(background mean / std in measure_noise, cos/sin sums of ecc) are summed in a different order "
    "after a shift / transposition and differ by rounding only",
    "the 'identical for any number of worker processes' clause is SUPPORTED by comparing batch with "
    "processes in {1,2,3} (and 'auto') on the same frames, not proved: it rests on "
    "multiprocessing.Pool.imap preserving order and on locate having no process-global state "
    "(trusted base)",
    "batch needs `frames[i]`: a pure iterator / generator raises TypeError ('not subscriptable') "
    "although the docstring says 'list (or iterable)'; the property speaks about frame sequences, "
    "iterators are not generated (observation, not a C09 finding)",
    "rows are matched after sorting by position (row order is not a reported quantity); a pair of "
    "located candidates with equal mass AND equal tie-break key sum(pos/separation) within "
    "separation (a full tie of where_close, decided by row order / float rounding of the key) is "
    "outside the comparison: such cases are detected on the pre-deduplication table and counted "
    "borderline",
    "float32 frames (shift, batch): numpy accumulates mean / std of a float32 array in float32, so the "
    "background statistics of measure_noise and with them ep depend on the summation order at the "
    "1e-7 level (observed 8e-8 on a 63 x 35662 canvas); ep is compared at 1e-5 relative for float32 "
    "frames, every other column at 1e-9 (pixels are multiples of 1/256: raw_mass is exact)",
    "big frames (one axis beyond 2^15 / 2^16 / 2^17 px, or more than 1 / 4 Mpx) are rendered from a "
    "recipe and go through the DIRECT ORACLE only (counter big_cases_oracle_only); on them the "
    "candidate maxima of trackpy.find.grey_dilation (called as locate calls it) are compared first "
    "(transposed candidates / same count at both offsets) and frames with more than 30000 candidates "
    "are not refined (counters *_too_many_candidates_skipped)",
    "with numba absent and NumPy >= 2 the interpreted 3-D kernel raises OverflowError for a candidate "
    "beyond pixel 32767 (Python int + np.int16 mask offset); compiled numba does not (an artefact "
    "of the interpreted kernels; the 2-D kernels keep np.int64 coordinates): 3-D stacks with a long axis "
    "are run with engine='python' only",
    "bandpass on a shifted content is bit-identical relative to the content because "
    "uniform_filter1d's running sum passes through exact zeros before the content; the trailing "
    "rounding residue (~1e-14) is removed by the threshold (>= 1/255)",
    "numba is absent: engine='numba' runs the kernels interpreted",
    "KNOWN FINDING {what: ecc-changes-under-transposition}: masks.cosmask weights the centre pixel with "
    "cos(2*atan2(0,0)) = 1, so ecc differs between an integer image and its transpose; it is reported as "
    "a property-violation with exactly this signature only when ecc is the ONLY differing column of a "
    "transposed pair (preprocess=False); the model mirrors the code (centreCos = 1, exact law "
    "refine_transpose_ecc) and its ecc is compared with the code's; a tree whose cosmask centre is 0 "
    "(repo-fixes/C09-cosmask-centre.patch, not applied) is recognised (stat *_code_weight0) and accepted",
    "stage correspondences inherit the assumptions of C06 / C07 / C10 (exact percentile borderline, "
    "shift_thresh as the exact value of the float, kernel as 50-digit decimals)",
]
MIN_NONTRIVIAL = 20
TOL = 1e-9
NAMES = ["z", "y", "x"]
BIG_CANDIDATE_CAP = 30000       # big frames with more candidate maxima than this are not refined


def init(ctx):
    common.setup_repo_path()


# ------------------------------------------------------------------------------------------
# generation

def _odd(rng, lo, hi):
    return rng.choice([d for d in range(lo, hi + 1) if d % 2 == 1])


def _content(rng, shape, dtype, prefer_blobs):
    vmax = {"uint8": 255, "uint16": rng.choice([255, 4000, 65535]), "float64": 255}[dtype]
    kinds = ["blobs"] * (6 if prefer_blobs else 3) + ["palette", "palette", "spikes", "plateau",
                                                       "ramp", "flat"]
    kind = rng.choice(kinds)
    if rng.random() < 0.15:
        vmax = rng.choice([2, 5, 10])
    return kind, _texture(rng, shape, kind, vmax)


def _locate_params(rng, nd, transpose=False):
    iso = rng.random() < 0.55
    dmax = 9 if nd == 2 else 7
    if iso:
        diam = [_odd(rng, 3, dmax)] * nd
    else:
        diam = [_odd(rng, 3, dmax) for _ in range(nd)]
        if len(set(diam)) == 1:
            diam[rng.randrange(nd)] = 3 if diam[0] != 3 else 5
    kw = dict(diameter=diam)
    if rng.random() < 0.35:
        kw["separation"] = [max(2, d + rng.choice([-2, -1, 0, 1, 3])) for d in diam]
    kw["percentile"] = rng.choice([64, 64, 64, 0, 30, 90])
    kw["max_iterations"] = rng.choice([10, 10, 1, 3])
    kw["engine"] = rng.choice(["python", "python", "numba"])
    kw["characterize"] = rng.random() < 0.9
    kw["minmass_q"] = rng.choice([None, None, 0.3, 0.6])
    if iso and rng.random() < 0.2:
        kw["maxsize_q"] = 0.8
    if not transpose and rng.random() < 0.15:
        kw["topn"] = rng.randint(1, 3)
    if transpose and rng.random() < 0.3:
        # topn together with an effective mass / size filter: which rows survive must not depend on
        # the raster order (a tie of the masses at the cut is skipped as borderline by the runner)
        kw["topn"] = rng.randint(1, 4)
        if kw["minmass_q"] is None and rng.random() < 0.7:
            kw["minmass_q"] = rng.choice([0.3, 0.6])
    return kw


def gen_shift(rng, i):
    nd = 3 if rng.random() < 0.25 else 2
    pre = rng.random() < 0.5
    dtype = rng.choice(["uint8", "uint8", "uint8", "uint16", "float64"])
    shape = [rng.randint(10, 36) for _ in range(nd)] if nd == 2 else [rng.randint(7, 12) for _ in range(nd)]
    kind, px = _content(rng, shape, dtype, pre)
    kw = _locate_params(rng, nd)
    if nd == 3:
        kw["max_iterations"] = rng.choice([1, 3, 3, 10])
    kw["preprocess"] = pre
    if pre:
        if rng.random() < 0.3:
            kw["noise_size"] = rng.choice([0.5, 1, 1.5])
        if rng.random() < 0.3:
            kw["smoothing_size"] = [d + rng.choice([0, 2, 4]) for d in kw["diameter"]]
    if not pre and rng.random() < 0.25:
        # a lattice of identical point-symmetric spots whose pitch along one axis is EXACTLY the
        # separation: the refined centres are exactly `separation` apart, which must be kept (the
        # criterion is "closer than"), at every offset of the content in the canvas
        sep = kw.get("separation") or [d + 1 for d in kw["diameter"]]
        arr = np.zeros(shape, dtype=np.int64)
        ax = rng.randrange(nd)
        pitch = [int(sep[a]) if a == ax else int(sep[a]) + rng.randint(2, 4) for a in range(nd)]
        r0 = [kw["diameter"][a] // 2 + 1 for a in range(nd)]
        v = rng.choice([40, 90, 200])
        grids = [list(range(r0[a], shape[a] - r0[a], pitch[a])) for a in range(nd)]
        import itertools
        for c in itertools.product(*grids):
            arr[c] = v
            for a in range(nd):               # a small symmetric cross: the centroid is the pixel
                for dlt in (-1, 1):
                    cc = list(c); cc[a] += dlt
                    if 0 <= cc[a] < shape[a]:
                        arr[tuple(cc)] = v // 2
        if all(len(g) >= 1 for g in grids) and len(grids[ax]) >= 2:
            kind, px = "lattice", [int(x) for x in arr.ravel()]
    pad = needed_pad(kw, nd)
    extra = [rng.randint(1, 8) for _ in range(nd)]
    canvas = [s + 2 * p + e for s, p, e in zip(shape, pad, extra)]
    offs = []
    for _ in range(2):
        offs.append([rng.randint(p, c - s - p) for p, c, s in zip(pad, canvas, shape)])
    if offs[0] == offs[1]:
        offs[1][0] = pad[0] if offs[0][0] != pad[0] else pad[0] + 1
    return dict(stream="shift", kind=kind, dtype=dtype, shape=shape, pixels=px, canvas=canvas,
                off1=offs[0], off2=offs[1], kw=kw)


def needed_pad(kw, nd):
    """black pixels needed on every side (per axis) for the shift theorems' hypotheses"""
    diam = kw["diameter"]
    sep = kw.get("separation") or [d + 1 for d in diam]
    sm = kw.get("smoothing_size") or diam
    noise = kw.get("noise_size", 1)
    out = []
    for a in range(nd):
        r = diam[a] // 2
        margin = max(r, sep[a] // 2 - 1, sm[a] // 2)
        halo = 0
        if kw.get("preprocess", True):
            halo = max(int(4 * noise + 0.5), sm[a] // 2) + 1
        out.append(halo + max(margin, r + max(1, kw["max_iterations"])) + 1)
    return out


def gen_transpose(rng, i):
    nd = 3 if rng.random() < 0.25 else 2
    dtype = rng.choice(["uint8", "uint8", "uint16"])
    shape = [rng.randint(16, 44) for _ in range(nd)] if nd == 2 else [rng.randint(10, 18) for _ in range(nd)]
    kind, px = _content(rng, shape, dtype, True)
    kw = _locate_params(rng, nd, transpose=True)
    kw["preprocess"] = False
    if nd == 2:
        perm = [1, 0]
    else:
        perm = rng.choice([[0, 2, 1], [1, 0, 2], [2, 1, 0], [1, 2, 0], [2, 0, 1]])
    return dict(stream="transpose", kind=kind, dtype=dtype, shape=shape, pixels=px, perm=perm,
                view=rng.random() < 0.3, kw=kw)


def gen_transpose_mirror(rng, i):
    """16-bit image with close anti-diagonal pairs of spots mirrored across the image diagonal whose
    masses (~1.8e5) differ by one or two counts: both members are found as maxima (they sit between
    the square dilation footprint and the separation ellipse), the mass comparison of `where_close`
    has to decide, and its fall-back (position sum, then raster order) is what transposition
    changes.  No exact ties (those are borderline by the property's own reading)."""
    n = 56
    a = np.zeros((n, n), dtype=np.int64)

    def cross(y, x, peak, arm):
        a[y, x] = peak
        for dy, dx in ((1, 0), (-1, 0), (0, 1), (0, -1)):
            a[y + dy, x + dx] = arm
    used = []
    for _ in range(rng.randint(2, 4)):
        for _try in range(50):
            lo = rng.randint(6, n - 12)
            if all(abs(lo - u) >= 10 for u in used):
                break
        else:
            continue
        used.append(lo)
        hi = lo + 4
        arm = rng.choice([30000, 31000, 20000])
        peak = rng.choice([60000, 50000, 64000])
        d = rng.choice([1, 2, -1, -2])
        cross(lo, hi, peak, arm)
        cross(hi, lo, peak + d, arm)
    for _ in range(rng.randint(0, 3)):                # isolated spots off the diagonal band
        y, x = rng.randint(4, n - 5), rng.randint(4, n - 5)
        if abs(y - x) > 12 and a[max(0, y - 8):y + 9, max(0, x - 8):x + 9].sum() == 0:
            cross(y, x, rng.choice([40000, 65000]), rng.choice([10000, 25000]))
    kw = dict(diameter=[5, 5], percentile=64, max_iterations=rng.choice([10, 3]),
              engine=rng.choice(["python", "numba"]), characterize=True, minmass_q=None,
              preprocess=False)
    return dict(stream="transpose", kind="mirror-pairs", dtype="uint16", shape=[n, n],
                pixels=[int(v) for v in a.ravel()], perm=[1, 0], view=rng.random() < 0.3, kw=kw)


def gen_batch(rng, i):
    nfr = rng.randint(3, 6)
    side = [rng.randint(28, 44), rng.randint(28, 44)]
    frames = []
    for _ in range(nfr):
        k = rng.random()
        if k < 0.18:
            frames.append(dict(kind="blank", pixels=None))
        elif k < 0.33:
            frames.append(dict(kind="dim", pixels=[rng.randint(0, 1) for _ in range(side[0] * side[1])]))
        else:
            frames.append(dict(kind="blobs", pixels=_texture(rng, side, "blobs", 255)))
    mode = rng.choice(["plain", "plain", "frame_no", "frame_no", "mixed"])
    fnos = rng.sample(range(1, 60), nfr)
    if rng.random() < 0.6:
        fnos[rng.randrange(1, nfr)] = 0       # frame number 0, and not in first position
    elif rng.random() < 0.3:
        fnos[0] = 0
    if mode == "plain":
        fnos = [None] * nfr
    elif mode == "mixed":
        fnos = [f if rng.random() < 0.5 else None for f in fnos]
    procs = [1, 2, 3] + (["auto"] if rng.random() < 0.2 else [])
    kw = dict(diameter=rng.choice([5, 7, 7, 9]), preprocess=rng.random() < 0.7,
              minmass=rng.choice([0, 0, 100]), engine=rng.choice(["python", "numba"]))
    return dict(stream="batch", shape=side, frames=frames, frame_nos=fnos, procs=procs,
                container=rng.choice(["list", "list", "seq"]), kw=kw)


def gen_stage(rng, i):
    which = ["maxima_shift", "maxima_transpose", "refine", "bandpass_shift", "locate_model"][i % 5]
    nd = 3 if rng.random() < 0.25 else 2
    if which == "maxima_shift":
        shape = [rng.randint(3, 9) for _ in range(nd)] if nd == 2 else [rng.randint(2, 5) for _ in range(nd)]
        kind = rng.choice(["palette", "palette", "spikes", "plateau", "blobs"])
        px = _texture(rng, shape, kind, rng.choice([3, 9, 255]))
        sep = [rng.choice([1, 2, 2, 3, 4, 2.5, 3.5])] * nd if rng.random() < 0.6 else \
            [rng.choice([1, 2, 3, 4, 2.5]) for _ in range(nd)]
        margin = rng.choice(["d", "d", [0] * nd, [rng.randint(0, 3) for _ in range(nd)]])
        m = [int(s / 2) for s in sep] if margin == "d" else margin
        pad = [mm + rng.choice([0, 0, 1, 2]) for mm in m]
        if rng.random() < 0.12:     # hypothesis deliberately violated on one axis
            a = rng.randrange(nd)
            pad[a] = max(0, m[a] - 1)
        canvas = [s + 2 * p + rng.randint(1, 4) for s, p in zip(shape, pad)]
        offs = [[rng.randint(p, c - s - p) for p, c, s in zip(pad, canvas, shape)] for _ in range(2)]
        return dict(stream="stage", which=which, shape=shape, pixels=px, sep=sep, margin=margin,
                    pct=rng.choice([0, 30, 64, 64, 90, 100]), canvas=canvas, off1=offs[0], off2=offs[1])
    if which == "maxima_transpose":
        shape = [rng.randint(3, 12) for _ in range(nd)] if nd == 2 else [rng.randint(2, 6) for _ in range(nd)]
        kind = rng.choice(["palette", "palette", "spikes", "plateau", "blobs"])
        px = _texture(rng, shape, kind, rng.choice([3, 9, 255]))
        sep = [rng.choice([1, 2, 3, 4, 2.5, 3.5]) for _ in range(nd)]
        margin = rng.choice(["d", [0] * nd, [rng.randint(0, 2) for _ in range(nd)]])
        return dict(stream="stage", which=which, shape=shape, pixels=px, sep=sep, margin=margin,
                    pct=rng.choice([0, 30, 64, 64, 90]))
    if which == "refine":
        nd = 2 if rng.random() < 0.8 else 3
        radius = [rng.randint(1, 3) for _ in range(nd)]
        if rng.random() < 0.5:
            radius = [radius[0]] * nd
        max_iter = rng.choice([1, 2, 3, 5])
        shape = [2 * r + 1 + rng.randint(0, 8) for r in radius]
        kind = rng.choice(["palette", "blobs", "blobs", "spikes", "ramp"])
        px = _texture(rng, shape, kind, rng.choice([5, 255]))
        raw = _texture(rng, shape, "palette", 255)
        pad = [r + max_iter + rng.choice([0, 0, 1]) for r in radius]
        canvas = [s + 2 * p + rng.randint(0, 3) for s, p in zip(shape, pad)]
        offs = [[rng.randint(p, c - s - p) for p, c, s in zip(pad, canvas, shape)] for _ in range(2)]
        starts = [[rng.randint(0, s - 1) for s in shape] for _ in range(rng.randint(1, 4))]
        return dict(stream="stage", which=which, shape=shape, pixels=px, raw=raw, radius=radius,
                    max_iter=max_iter, thr=rng.choice(["0.6", "0.6", "0.5"]), canvas=canvas,
                    off1=offs[0], off2=offs[1], starts=starts)
    if which == "bandpass_shift":
        nd = 2
        shape = [rng.randint(2, 5) for _ in range(nd)]
        px = [rng.randint(0, 40) for _ in range(shape[0] * shape[1])]
        lshort = rng.choice([0.5, 1, 1])
        llong = [rng.choice([3, 5]) for _ in range(nd)]
        lw = int(4 * lshort + 0.5)
        pad = [max(lw, l // 2) + 1 for l in llong]
        canvas = [s + 2 * p + rng.randint(0, 2) for s, p in zip(shape, pad)]
        offs = [[rng.randint(p, c - s - p) for p, c, s in zip(pad, canvas, shape)] for _ in range(2)]
        return dict(stream="stage", which=which, shape=shape, pixels=px, lshort=lshort, llong=llong,
                    threshold=rng.choice([1, 1, 0.5, 2]), canvas=canvas, off1=offs[0], off2=offs[1])
    # locate_model
    nd = 2
    shape = [rng.randint(9, 14) for _ in range(nd)]
    px = _texture(rng, shape, rng.choice(["blobs", "blobs", "palette", "spikes"]), 255)
    diam = [rng.choice([3, 5])] * nd if rng.random() < 0.6 else [rng.choice([3, 5]) for _ in range(nd)]
    return dict(stream="stage", which="locate_model", shape=shape, pixels=px, diameter=diam,
                preprocess=rng.random() < 0.4, max_iter=rng.choice([1, 3, 10]),
                pct=rng.choice([64, 0, 90]))


# ------------------------------------------------------------------------------------------
# image SIZE as a dimension of the input space: very long axes, frames above 1 Mpx / 4 Mpx.
# Big frames are never stored as pixel lists: the input holds a small RECIPE (shape, dtype, seed,
# background, stripes, blobs) which `render` turns into the array deterministically (numpy
# RandomState), so a replay file stays a few hundred bytes.  Big cases go through the DIRECT
# ORACLE only (counter `big_cases_oracle_only`): nothing of them is sent to the Lean driver.

ROUND_DIMS = [1000, 1024, 1040, 1100, 1200, 1280, 1300, 1392, 1536]
ROUND_DIMS_4M = [2048, 2100, 2160, 2200, 2448]


def render(rc):
    """the frame a recipe describes (2-D).  Integer pixel values; dtype float32 holds value/256
    (exact).  Every blob has its own amplitude, so masses do not tie; `nonzero` lifts every pixel
    to >= 1 (all pixels count for the brightness percentile)."""
    H, W = rc["shape"]
    r = np.random.RandomState(rc["seed"])
    bg = rc["bg"]
    yy = np.arange(H, dtype=np.float64)[:, None]
    xx = np.arange(W, dtype=np.float64)[None, :]
    if bg["kind"] == "ramp":            # strictly rising along every axis with a non-zero slope
        img = bg["base"] + bg["slope"][0] * yy + bg["slope"][1] * xx
    elif bg["kind"] == "noise":
        img = bg["base"] + r.randint(0, bg["amp"] + 1, (H, W)).astype(np.float64)
    elif bg["kind"] == "flat":
        img = np.full((H, W), float(bg["base"]))
    else:                               # black
        img = np.zeros((H, W))
    bl = rc.get("blobs")
    if bl and bl["n"] > 0:
        cell = bl["cell"]
        ch, cw = min(cell, H), min(cell, W)
        gy, gx = max(1, H // ch), max(1, W // cw)
        n = min(bl["n"], gy * gx)
        cells = r.permutation(gy * gx)[:n]
        amps = bl["amp_lo"] + bl["amp_step"] * r.permutation(n).astype(np.float64)
        m = bl["margin"]
        for a, c in zip(amps, cells):
            y0, x0 = (c // gx) * ch, (c % gx) * cw
            cy = y0 + r.uniform(min(m, ch / 2.0), max(ch - m, ch / 2.0))
            cx = x0 + r.uniform(min(m, cw / 2.0), max(cw - m, cw / 2.0))
            sy, sx = r.uniform(*bl["sigma"]), r.uniform(*bl["sigma"])
            ya, yb = max(0, int(cy) - 16), min(H, int(cy) + 17)
            xa, xb = max(0, int(cx) - 16), min(W, int(cx) + 17)
            ys = np.arange(ya, yb, dtype=np.float64)[:, None]
            xs = np.arange(xa, xb, dtype=np.float64)[None, :]
            img[ya:yb, xa:xb] += a * np.exp(-((ys - cy) / sy) ** 2 / 2 - ((xs - cx) / sx) ** 2 / 2)
    st = rc.get("stripes")
    if st:                              # line-periodic structure: interlaced rows / columns, stripes
        lev = np.array(st["levels"], dtype=np.float64)[np.arange(img.shape[st["axis"]]) % len(st["levels"])]
        lev = lev[:, None] if st["axis"] == 0 else lev[None, :]
        img = img * lev if st["mode"] == "mul" else img + lev
    for ax, f in enumerate(rc.get("flip", [False, False])):
        if f:
            img = np.flip(img, axis=ax)
    vmax = rc["vmax"]
    q = np.round(img).clip(1 if rc.get("nonzero") else 0, vmax).astype(np.int64)
    if rc["dtype"] == "float32":
        return (q.astype(np.float32) / np.float32(256.0))      # exact: q < 2^24
    return q.astype(DT[rc["dtype"]])


def _big_dims(rng, size_class):
    if size_class == "1M":              # 1.0 .. ~2.4 Mpx
        if rng.random() < 0.6:
            return [rng.choice(ROUND_DIMS), rng.choice(ROUND_DIMS)]
        return [rng.randint(1001, 1500), rng.randint(1001, 1500)]
    if size_class == "4M":              # above 2^22
        if rng.random() < 0.6:
            return [rng.choice(ROUND_DIMS_4M), rng.choice(ROUND_DIMS_4M)]
        return [rng.randint(2050, 2300), rng.randint(2050, 2300)]
    if size_class == "16M":             # above 2^24
        return [rng.randint(4100, 4300), rng.randint(4100, 4300)]
    if size_class == "long":            # one axis beyond 2^15 (sometimes 2^16)
        d = [rng.randint(40, 72), rng.choice([32768 + rng.randint(8, 3000), 40000, 65536 + rng.randint(8, 3000)])]
        return d if rng.random() < 0.5 else d[::-1]
    return [rng.randint(250, 520), rng.randint(250, 520)]      # "mid": below every size switch


def _big_params(rng, nd=2):
    iso = rng.random() < 0.6
    diam = [rng.choice([7, 9, 11])] * nd if iso else rng.choice([[9, 7], [7, 9], [11, 7], [7, 11], [11, 9]])
    kw = dict(diameter=list(diam), percentile=rng.choice([64, 64, 64, 50, 30, 80, 90]), max_iterations=10,
              engine="python", characterize=rng.random() < 0.9, minmass_q=rng.choice([None, None, 0.3]))
    if rng.random() < 0.3:
        kw["separation"] = [d + rng.choice([0, 2, 5]) for d in diam]
    return kw


def _dil_reach(kw, axis, nd=2):
    """how far (towards larger indices) grey_dilation's box reaches along `axis`"""
    sep = (kw.get("separation") or [d + 1 for d in kw["diameter"]])[axis]
    return (int(2 * sep / math.sqrt(nd)) - 1) // 2


def _big_recipe(rng, shape, dtype, kw, nonzero=True, allow_noise=True, stripes_ok=True,
                fixed_percentile=False):
    """background x line-periodic structure x blobs for a big frame.  The classes are chosen so
    that the number of candidate maxima stays in the hundreds / thousands: a background plateau
    wider than the dilation box makes EVERY pixel of it a candidate (hundreds of thousands of
    refinements in the python engine), so plateaus are either strictly rising ramps (16 bit and
    float) or stay below the brightness threshold (flat pedestals: the percentile is kept above
    the share of the brightest stripe)."""
    H, W = shape
    wide = dtype in ("uint16", "float32")
    vmax = 65535 if wide else 255
    # 8 bit: flat pedestal only.  A gradient of <= 255 counts over > 1000 px has plateaus wider than
    # the dilation box, and 8-bit noise repeats its top value inside every box (equal pixels are ALL
    # candidates): both give > 10^5 candidates per frame (counter transpose_big_too_many_candidates_skipped)
    kinds = (["ramp"] * 4 + ["flat", "noise"]) if wide else ["flat"]
    if not allow_noise:
        kinds = [k for k in kinds if k != "noise"]
    kind = rng.choice(kinds)
    if kind == "ramp":
        slope = [rng.choice([0, 2, 3, 4]) if n <= 8000 else 0 for n in (H, W)]
        if not any(slope):
            slope[0 if H <= W else 1] = rng.choice([2, 3, 4])
        bg = dict(kind="ramp", base=rng.choice([50, 200, 1000]), slope=slope)
        top = bg["base"] + slope[0] * H + slope[1] * W
    elif kind == "noise":
        bg = dict(kind="noise", base=rng.choice([50, 500]), amp=rng.choice([300, 1000, 4000]))
        top = bg["base"] + bg["amp"]
    else:
        bg = dict(kind="flat", base=rng.choice([10, 30, 60]) if not wide else rng.choice([30, 300, 2000]))
        top = bg["base"]
    stripes = None
    if stripes_ok and rng.random() < 0.75:
        axis = rng.randrange(2)
        period = rng.choice([2, 2, 2, 3, 4, 4, 5, 8])
        if fixed_percentile and kind != "ramp":
            period = 2              # the caller cannot raise the percentile above the brightest phase
        if period > max(2, _dil_reach(kw, axis)):
            period = 2              # the next line of the same phase must lie inside the dilation box
        if rng.random() < 0.65:
            lev = [1.0] + [rng.choice([0.5, 0.6, 0.7, 0.8, 0.9]) for _ in range(period - 1)]
            mode = "mul"
        else:
            step = max(2, top // rng.choice([4, 8, 16]))
            lev = [float(rng.randint(0, 3) * step) for _ in range(period)]
            if len(set(lev)) == 1:
                lev[rng.randrange(period)] += step
            mode = "add"
            top += max(lev)
        rng.shuffle(lev)            # which phase line 0 is in
        stripes = dict(axis=axis, period=period, levels=lev, mode=mode)
        if kind != "ramp" and not fixed_percentile:
            # flat / noisy pedestal: the brightest phase is a plateau; keep the threshold above it
            share = 100.0 * (1.0 - 1.0 / period)
            kw["percentile"] = max(kw["percentile"], rng.choice([p for p in (64, 80, 90, 95, 98) if p > share + 5][:2]))
    n_target = rng.randint(60, 260)
    cell = max(44, int(math.sqrt(H * W / float(n_target))))
    head = vmax - top
    # amplitudes from barely above the local background to several times the background range: the
    # peaks of some blobs lie just below, of others just above the brightness threshold wherever in
    # the background range the percentile puts it
    amp_lo = rng.choice([40, 100, 300]) if wide else rng.choice([15, 40, 60])
    amp_hi = min(head - 2, max(2000, rng.choice([top // 2, top, 2 * top]))) if wide else head - 2
    n_cells = max(1, H // min(cell, H)) * max(1, W // min(cell, W))
    n = min(n_target, n_cells)
    step = round((amp_hi - amp_lo) / float(max(1, n)), 3)
    blobs = dict(n=n, cell=cell, margin=18, amp_lo=float(amp_lo), amp_step=float(step),
                 sigma=[1.3, rng.choice([2.0, 2.8])])
    return dict(shape=[H, W], dtype=dtype, vmax=vmax, seed=rng.randrange(1 << 30), bg=bg, stripes=stripes,
                blobs=blobs, nonzero=nonzero, flip=[rng.random() < 0.3, rng.random() < 0.3])


def gen_transpose_big(rng, i, thorough=False):
    """transposition clause on frames above 1 Mpx / 4 Mpx, on frames with one very long axis and (as
    a control below every size switch) on mid-sized frames: every pixel non-zero, line-periodic
    structure along one axis, many blobs of all-different amplitudes"""
    size_class = ["1M", "1M", "1M", "4M", "1M", "long", "1M", "mid"][i % 8]
    if thorough and i % 32 == 11:
        size_class = "16M"              # above 2^24 pixels
    shape = _big_dims(rng, size_class)
    dtype = rng.choice(["uint16", "uint16", "uint8"])
    kw = _big_params(rng)
    kw["preprocess"] = False
    rc = _big_recipe(rng, shape, dtype, kw, nonzero=True, allow_noise=size_class not in ("4M", "16M"))
    return dict(stream="transpose", big=size_class, kind="big-" + rc["bg"]["kind"], dtype=dtype,
                shape=shape, recipe=rc, perm=[1, 0], view=rng.random() < 0.3, kw=kw)


LONG_OFFSET_CLASSES = ["low", "below15", "straddle15", "above15", "straddle16", "above16", "end"]


def _long_offset(rng, cls, L, s, pad):
    """offset of a content of length s along an axis of length L, by class relative to 2^15 / 2^16"""
    lo, hi = pad, L - s - pad
    def clamp(v):
        return max(lo, min(hi, v))
    if cls == "low":
        return clamp(lo + rng.randint(0, 60))
    if cls == "below15":
        return clamp(32768 - s - rng.randint(1, 40))
    if cls == "straddle15":
        return clamp(32768 - rng.randint(1, s - 1))
    if cls == "above15":
        return clamp(rng.randint(32768, min(hi, 65535 - s)) if hi > 32768 else hi)
    if cls == "straddle16":
        return clamp(65536 - rng.randint(1, s - 1))
    if cls == "above16":
        return clamp(rng.randint(65536, hi) if hi > 65536 else hi)
    return clamp(hi - rng.randint(0, 30))


def gen_shift_long(rng, i):
    """shift clause in a canvas with ONE very long axis (line-scan frames, kymographs, deep stacks):
    the small contents of gen_shift pasted at offsets below, across and beyond pixel 2^15 / 2^16"""
    want3 = i % 8 == 3
    # 3-D (every 8th case): the two thin axes multiply, so the stack is kept narrow: no preprocessing
    # (no halo), one refinement iteration, integer dtype (a float64 stack would be 8x the memory)
    while True:
        inp = gen_shift(rng, i)
        nd = len(inp["shape"])
        if (nd == 3) == want3:
            break
    kw = inp["kw"]
    if nd == 3:
        kw["preprocess"] = False
        kw["max_iterations"] = 1
        kw.pop("noise_size", None)
        kw.pop("smoothing_size", None)
        if inp["dtype"] == "float64":
            inp["dtype"] = "uint8"
        # UNCHANGED-TREE OBSERVATION (reported, class kept out): with numba absent the 3-D kernel runs
        # interpreted and computes `int(round(coord)) - radius + maskZ[i]` = Python int + np.int16,
        # which under NumPy >= 2 raises "OverflowError: Python integer 32768 out of bounds for int16"
        # for a candidate beyond pixel 32767 (replay: canvas [19, 33940, 22], off1 [5, 32765, 5] vs
        # off2 [5, 32734, 5], engine='numba').  Compiled numba types the sum int64; the 2-D kernels keep
        # np.int64 coordinates and are not affected.  An artefact of the interpreted kernels (see
        # ASSUMPTIONS), not of locate: 3-D long stacks are run with the python engine only.
        kw["engine"] = "python"
    if rng.random() < 0.5 and inp["dtype"] == "float64":
        inp["dtype"] = "float32"
    pad = needed_pad(kw, nd)
    shape = inp["shape"]
    ax = rng.randrange(nd)
    if nd == 3:
        L = 32768 + rng.randint(200, 1500)
    else:
        L = rng.choice([32768 + rng.randint(100, 3000), 40000, 65536 + rng.randint(100, 5000),
                        65536 + rng.randint(100, 5000), 131072 + rng.randint(100, 3000)])
    canvas = [s + 2 * p + (1 if nd == 3 else rng.randint(1, 8)) for s, p in zip(shape, pad)]
    canvas[ax] = L
    avail = [c for c in LONG_OFFSET_CLASSES
             if L > 65536 + shape[ax] + 2 * pad[ax] + 1 or c not in ("straddle16", "above16")]
    c1 = rng.choice(["low", "low", "below15", "straddle15"]) if rng.random() < 0.75 else rng.choice(avail)
    c2 = rng.choice([c for c in avail if c not in ("low", c1)] or ["end"])
    offs = []
    for cls in (c1, c2):
        o = [rng.randint(p, c - s - p) for p, c, s in zip(pad, canvas, shape)]
        o[ax] = _long_offset(rng, cls, L, shape[ax], pad[ax])
        offs.append(o)
    if offs[0] == offs[1]:
        offs[1][ax] = max(pad[ax], offs[1][ax] - 1)
    inp.update(canvas=canvas, off1=offs[0], off2=offs[1], big="long", long_axis=ax,
               off_classes=[c1, c2])
    return inp


def gen_shift_bigarea(rng, i):
    """shift clause in a canvas above 1 Mpx (every 4th: above 4 Mpx): a small content at two offsets
    anywhere, or (every 3rd) a big rendered content (all pixels non-zero) moved by a few pixels"""
    big4 = i % 4 == 3
    if i % 3 == 2:
        dims = _big_dims(rng, "4M" if big4 else "1M")
        dtype = rng.choice(["uint16", "uint8", "float32"])
        kw = _big_params(rng)
        kw["preprocess"] = False
        rc = _big_recipe(rng, dims, dtype, kw, nonzero=True, allow_noise=not big4)
        pad = needed_pad(kw, 2)
        extra = [rng.randint(2, 40) for _ in range(2)]
        canvas = [s + 2 * p + e for s, p, e in zip(dims, pad, extra)]
        offs = [[rng.randint(p, c - s - p) for p, c, s in zip(pad, canvas, dims)] for _ in range(2)]
        if offs[0] == offs[1]:
            offs[1][0] = pad[0] if offs[0][0] != pad[0] else pad[0] + 1
        return dict(stream="shift", big="4M-content" if big4 else "1M-content", kind="big-" + rc["bg"]["kind"],
                    dtype=dtype, shape=dims, recipe=rc, canvas=canvas, off1=offs[0], off2=offs[1], kw=kw)
    inp = gen_shift(rng, i)
    while len(inp["shape"]) == 3:
        inp = gen_shift(rng, i)
    if rng.random() < 0.3 and inp["dtype"] == "float64":
        inp["dtype"] = "float32"
    pad = needed_pad(inp["kw"], 2)
    canvas = _big_dims(rng, "4M" if big4 else "1M")
    offs = [[rng.randint(p, c - s - p) for p, c, s in zip(pad, canvas, inp["shape"])] for _ in range(2)]
    if offs[0] == offs[1]:
        offs[1][0] = pad[0] if offs[0][0] != pad[0] else pad[0] + 1
    inp.update(canvas=canvas, off1=offs[0], off2=offs[1], big="4M-canvas" if big4 else "1M-canvas")
    return inp


def gen_batch_big(rng, i):
    """batch clause: ONE big frame (above 1 Mpx, or with an axis beyond 2^15) among small ones"""
    inp = gen_batch(rng, i)
    size_class = ["1M", "long", "1M", "4M"][i % 4]
    dims = _big_dims(rng, size_class)
    dtype = rng.choice(["uint8", "uint16", "float32"])
    kwb = dict(diameter=[inp["kw"]["diameter"]] * 2, percentile=64)
    # with preprocessing a line-periodic pedestal leaves a ripple above the bandpass threshold on
    # every line (a candidate maximum per pixel): stripes only without preprocessing
    pre = inp["kw"]["preprocess"]
    rc = _big_recipe(rng, dims, dtype, kwb, nonzero=rng.random() < 0.5, allow_noise=False,
                     stripes_ok=not pre, fixed_percentile=True)
    if rng.random() < 0.3:
        rc["bg"] = dict(kind="black")
        rc["nonzero"] = False
    inp["frames"][rng.randrange(len(inp["frames"]))] = dict(kind="big-" + size_class, pixels=None, recipe=rc)
    inp["big"] = size_class
    inp["procs"] = [1, 2, 3]
    return inp


def gen_cases(ctx):
    for inp in ctx.corpus():
        yield inp
    nb = ctx.n(16, 150)
    ns = ctx.n(400, 5000)
    nt = ctx.n(400, 5000)
    ng = ctx.n(500, 8000)
    # image size as an input dimension (few: each costs up to seconds)
    nsl = ctx.n(24, 400)        # shift, one very long axis
    nsa = ctx.n(9, 120)         # shift, canvas above 1 Mpx / 4 Mpx
    ntb = ctx.n(40, 600)        # transpose, frames above 1 Mpx / 4 Mpx (thorough: 16 Mpx) / long / mid
    nbb = ctx.n(4, 60)          # batch, one big frame among small ones
    # interleave so that the slow batch cases are spread over the pool
    for i in range(max(ns, nt, ng)):
        if i < nb:
            yield gen_batch(ctx.rng("batch", i), i)
        if i < nbb:
            yield gen_batch_big(ctx.rng("batch-big", i), i)
        if i < nsl:
            yield gen_shift_long(ctx.rng("shift-long", i), i)
        if i < nsa:
            yield gen_shift_bigarea(ctx.rng("shift-bigarea", i), i)
        if i < ntb:
            yield gen_transpose_big(ctx.rng("transpose-big", i), i, thorough=ctx.thorough)
        if i < ns:
            yield gen_shift(ctx.rng("shift", i), i)
        if i < nt:
            if i % 8 == 5:
                yield gen_transpose_mirror(ctx.rng("transpose-mirror", i), i)
            else:
                yield gen_transpose(ctx.rng("transpose", i), i)
        if i < ng:
            yield gen_stage(ctx.rng("stage", i), i)


# ------------------------------------------------------------------------------------------
# helpers

DT = {"uint8": np.uint8, "uint16": np.uint16, "float64": np.float64, "int64": np.int64}


DT["float32"] = np.float32


def build(inp):
    if inp.get("recipe") is not None:
        return render(inp["recipe"])
    a = np.array(inp["pixels"], dtype=np.int64).reshape(inp["shape"])
    if inp.get("dtype") == "float64":
        return a.astype(np.float64) / 256.0        # exact
    if inp.get("dtype") == "float32":
        return a.astype(np.float32) / np.float32(256.0)        # exact
    return a.astype(DT[inp.get("dtype", "uint8")])


def embed(content, canvas, off):
    big = np.zeros(canvas, dtype=content.dtype)
    big[tuple(slice(o, o + s) for o, s in zip(off, content.shape))] = content
    return big


def locate_kwargs(kw, ref=None):
    """the kwargs for tp.locate; quantile-valued minmass / maxsize are turned into numbers with the
    unrestricted table `ref` of the first image"""
    out = {k: v for k, v in kw.items() if k not in ("minmass_q", "maxsize_q", "diameter",
                                                    "separation", "smoothing_size")}
    for k in ("diameter", "separation", "smoothing_size"):
        if kw.get(k) is not None:
            out[k] = tuple(kw[k])
    if ref is not None and len(ref):
        if kw.get("minmass_q") is not None:
            out["minmass"] = float(np.quantile(ref["mass"].values, kw["minmass_q"])) + 0.5
        if kw.get("maxsize_q") is not None and "size" in ref:
            out["maxsize"] = float(np.quantile(ref["size"].values, kw["maxsize_q"])) + 1e-3
    return out


def close(a, b, scale=0.0):
    a, b = float(a), float(b)
    if math.isnan(a) or math.isnan(b):
        return math.isnan(a) and math.isnan(b)
    return abs(a - b) <= TOL * max(scale, abs(a), abs(b))


def sort_rows(df, poscols):
    if len(df) == 0:
        return df.reset_index(drop=True)
    key = np.round(df[poscols].values.astype(float), 6)
    order = np.lexsort(tuple(key[:, j] for j in reversed(range(key.shape[1]))))
    return df.iloc[order].reset_index(drop=True)


EP_RTOL_FLOAT32 = 1e-5


def compare_tables(A, B, poscols, delta, ep_rtol=TOL):
    """A, B: DataFrames with the SAME column names (B already renamed); rows matched after sorting
    by position (A shifted by delta).  Returns (list of differing columns, detail)"""
    if (len(A) == 0) != (len(B) == 0):      # (an empty table also lacks the ep columns)
        return ["<rows>"], "%d rows vs %d rows" % (len(A), len(B))
    if list(A.columns) != list(B.columns):
        return ["<columns>"], "columns %s vs %s" % (list(A.columns), list(B.columns))
    skip_ep = False
    if len(A) and len(B) and (A[poscols].isna().all(axis=1).any() or B[poscols].isna().all(axis=1).any()):
        # C08's anisotropic-ep defect (ep_* concatenated on a fresh RangeIndex after rows were
        # filtered: phantom all-NaN rows, ep_* attached to the wrong rows).  Not C09's subject:
        # drop the phantom rows and leave the ep_* columns out of this comparison.
        skip_ep = True
        A = A[~A[poscols].isna().all(axis=1)]
        B = B[~B[poscols].isna().all(axis=1)]
    if len(A) != len(B):
        return ["<rows>"], "%d rows vs %d rows" % (len(A), len(B))
    if len(A) == 0:
        return [], None
    A = A.copy()
    for c, d in zip(poscols, delta):
        A[c] = A[c] + d
    A, B = sort_rows(A, poscols), sort_rows(B, poscols)
    bad, detail = [], None
    scale = max(1.0, float(np.abs(B[poscols].values).max()))
    for c in A.columns:
        if skip_ep and c.startswith("ep"):
            continue
        av, bv = A[c].values.astype(float), B[c].values.astype(float)
        for k in range(len(av)):
            if c in poscols:
                ok = abs(av[k] - bv[k]) <= TOL * scale
            elif c == "ecc":
                m, s = float(A["mass"].values[k]), float(A["signal"].values[k]) if "signal" in A else 0.0
                es = abs(m) / max(1e-6, m - s + 1e-6)
                ok = (math.isnan(av[k]) and math.isnan(bv[k])) or abs(av[k] - bv[k]) <= TOL * (es + abs(av[k]))
            elif c.startswith("ep"):
                ok = (math.isnan(av[k]) and math.isnan(bv[k])) or \
                    abs(av[k] - bv[k]) <= ep_rtol * max(abs(av[k]), abs(bv[k])) + 1e-12
            else:
                ok = close(av[k], bv[k])
            if not ok:
                if c not in bad:
                    bad.append(c)
                if detail is None:
                    detail = "row %d column %s: %r vs %r" % (k, c, av[k], bv[k])
    return bad, ("C08-ep-defect-skipped; " if skip_ep else "") + (detail or "") or None


def full_tie(img, kw):
    """is there, before locate's de-duplication, a pair of refined candidates within separation
    with (nearly) equal mass and (nearly) equal tie-break key?  (decided by row order / rounding)"""
    import trackpy as tp
    from trackpy.find import grey_dilation
    from trackpy.refine import refine_com
    from trackpy.preprocessing import bandpass, convert_to_int
    nd = img.ndim
    diam = kw["diameter"]
    radius = tuple(d // 2 for d in diam)
    sep = tuple(kw.get("separation") or [d + 1 for d in diam])
    sm = tuple(kw.get("smoothing_size") or diam)
    try:
        image = img
        if kw.get("preprocess", True):
            thr = 1 / 255. if not np.issubdtype(img.dtype, np.integer) else 1
            image = bandpass(img, kw.get("noise_size", 1), sm, thr)
        dtype = img.dtype if np.issubdtype(img.dtype, np.integer) else np.uint8
        _, image = convert_to_int(image, dtype)
        margin = tuple(max(r, s // 2 - 1, m // 2) for r, s, m in zip(radius, sep, sm))
        coords = grey_dilation(image, sep, kw.get("percentile", 64), margin, precise=False)
        ref = refine_com(img, image, radius, coords, max_iterations=kw.get("max_iterations", 10),
                         engine="python", characterize=False)
    except Exception:
        return False
    if len(ref) < 2:
        return False
    pos = ref[NAMES[-nd:]].values / np.array(sep, dtype=float)
    mass = ref["mass"].values
    key = pos.sum(axis=1)
    for a in range(len(ref)):
        d2 = ((pos - pos[a]) ** 2).sum(axis=1)
        for b in np.nonzero(d2 < 1.0 + 1e-6)[0]:
            if b > a and abs(mass[a] - mass[b]) <= 1e-9 * max(1, abs(mass[a])) \
                    and abs(key[a] - key[b]) <= 1e-9 * max(1, abs(key[a])):
                # also when the two positions coincide: two masks with different centres can have
                # the same centroid and mass but different size / ecc (measured about the mask centre)
                return True
    return False


def candidate_count(img, kw):
    """how many candidate maxima locate will hand to the refinement (bandpass -> convert_to_int ->
    grey_dilation with locate's margin); None if a stage raises.  Used on BIG frames only, before the
    python-engine refinement is let loose on them."""
    from trackpy.find import grey_dilation
    from trackpy.preprocessing import bandpass, convert_to_int
    nd = img.ndim
    diam = kw["diameter"] if isinstance(kw["diameter"], (list, tuple)) else [kw["diameter"]] * nd
    sep = tuple(kw.get("separation") or [d + 1 for d in diam])
    sm = tuple(kw.get("smoothing_size") or diam)
    try:
        image = img
        integer = np.issubdtype(img.dtype, np.integer)
        if kw.get("preprocess", True):
            image = bandpass(img, kw.get("noise_size", 1), sm, 1 if integer else 1 / 255.)
        _, image = convert_to_int(image, img.dtype if integer else np.uint8)
        margin = tuple(max(d // 2, s // 2 - 1, m // 2) for d, s, m in zip(diam, sep, sm))
        return len(grey_dilation(image, sep, kw.get("percentile", 64), margin, precise=False))
    except Exception:
        return None


def run_locate(img, kwargs):
    import trackpy as tp
    try:
        return "ok", tp.locate(img, **kwargs)
    except Exception as e:
        return "raise", "%s: %s" % (type(e).__name__, str(e)[:200])


# ------------------------------------------------------------------------------------------
# shift

def run_shift(ctx, inp):
    res = Result()
    content = build(inp)
    nd = content.ndim
    kw = inp["kw"]
    pos = NAMES[-nd:]
    big1 = embed(content, inp["canvas"], inp["off1"])
    big2 = embed(content, inp["canvas"], inp["off2"])
    delta = [b - a for a, b in zip(inp["off1"], inp["off2"])]
    res.stat("shift_cases")
    for k in ("shift_ndim_%d" % nd, "shift_pre_%s" % kw["preprocess"], "shift_dtype_" + inp["dtype"],
              "shift_kind_" + str(inp.get("kind")), "shift_engine_" + kw["engine"],
              "shift_iso" if len(set(kw["diameter"])) == 1 else "shift_aniso",
              "shift_maxiter_%d" % kw["max_iterations"]):
        res.stat(k)
    sig = dict(stream="shift", ndim=nd, preprocess=bool(kw["preprocess"]))
    if inp.get("big"):
        # size classes: direct oracle only (the stage stream feeds the Lean model with small images)
        res.stat("big_cases_oracle_only")
        res.stat("shift_big_" + inp["big"])
        res.stat("shift_big_canvas_mpx_x10", int(round(np.prod(inp["canvas"]) / 1e5)))
        sig["big"] = inp["big"]
        if inp["big"] == "long":
            ax = inp["long_axis"]
            res.stat("shift_long_axis_%s" % NAMES[-nd:][ax])
            res.stat("shift_long_axis_gt_2p%d" % (17 if inp["canvas"][ax] > 131072 else
                                                   16 if inp["canvas"][ax] > 65536 else 15))
            for c in inp.get("off_classes", []):
                res.stat("shift_long_offset_" + c)
            for o in (inp["off1"], inp["off2"]):
                end = o[ax] + inp["shape"][ax]
                res.stat("shift_long_content_%s" % ("beyond_2p16" if o[ax] >= 65536 else
                                                    "across_2p16" if end > 65536 else
                                                    "beyond_2p15" if o[ax] >= 32768 else
                                                    "across_2p15" if end > 32768 else "below_2p15"))
    if inp.get("recipe") is not None:
        # big content: the candidate maxima first (cheap, vectorised); as many at both offsets, and
        # few enough for the python-engine refinement
        n1, n2 = candidate_count(big1, kw), candidate_count(big2, kw)
        if n1 is not None and n2 is not None:
            res.stat("shift_big_candidates", n1)
            if n1 != n2:
                res.violation("property-violation", "content moved by %s in a %s canvas: %d candidate maxima "
                              "at one offset, %d at the other" % (delta, "x".join(map(str, inp["canvas"])), n1, n2),
                              impl=dict(candidates=[n1, n2]), signature=dict(sig, what="shift-changes-candidates"))
            if max(n1, n2) > BIG_CANDIDATE_CAP:
                res.stat("shift_big_too_many_candidates_skipped")
                return res
    st0, ref = run_locate(big1, locate_kwargs(kw))
    kwargs = locate_kwargs(kw, ref if st0 == "ok" else None)
    stA, A = run_locate(big1, kwargs)
    stB, B = run_locate(big2, kwargs)
    if stA != stB or (stA == "raise" and A.split(":")[0] != B.split(":")[0]):
        res.violation("property-violation", "locate raises at one offset only", impl=dict(a=str(A)[:300], b=str(B)[:300]),
                      signature=dict(sig, what="shift-changes-exception"))
        return res
    if stA == "raise":
        res.stat("shift_both_raise")
        return res
    res.stat("shift_features", len(A))
    if "minmass" in kwargs:
        res.stat("shift_minmass_filter")
    if "maxsize" in kwargs:
        res.stat("shift_maxsize_filter")
    if "topn" in kwargs:
        res.stat("shift_topn")
    ep_rtol = TOL
    if inp["dtype"] == "float32":
        # measure_noise takes mean / std of the raw float32 pixels with float32 accumulators: the
        # background statistics (hence ep) are reproducible to float32 rounding only
        ep_rtol = EP_RTOL_FLOAT32
        res.stat("shift_float32_ep_at_1e-5")
    bad, detail = compare_tables(A, B, pos, delta, ep_rtol=ep_rtol)
    if detail and detail.startswith("C08-ep-defect"):
        res.stat("c08_aniso_ep_defect_ep_columns_skipped")
    if bad:
        if full_tie(big1, kw) or full_tie(big2, kw):
            res.borderline = True
            res.stat("shift_full_tie_skipped")
            return res
        what = "shift-changes-rows" if bad[0].startswith("<") else \
            ("shift-position-not-offset" if any(c in pos for c in bad) else "shift-changes-" + bad[0])
        res.violation("property-violation",
                      "content moved by %s: locate differs in %s (%s)" % (delta, bad, detail),
                      impl=dict(a=A.head(6).to_dict("list"), b=B.head(6).to_dict("list")),
                      signature=dict(sig, what=what))
    res.nontrivial = len(A) > 0
    if len(A):
        res.sample = dict(stream="shift", canvas=inp["canvas"], off1=inp["off1"], off2=inp["off2"],
                          features=len(A), first_a=[float(v) for v in A.iloc[0].values][:6],
                          first_b=[float(v) for v in B.iloc[0].values][:6])
    return res


# ------------------------------------------------------------------------------------------
# transpose

def perm_list(v, perm):
    return [v[p] for p in perm]


def big_candidates(img, imgT, kw, kwT, perm):
    """grey_dilation as locate calls it without preprocessing, on the frame and on the permuted frame:
    (count, count of the permuted frame, is the second set the permuted first set)"""
    from trackpy.find import grey_dilation
    out = []
    try:
        for a, k in ((img, kw), (imgT, kwT)):
            diam = k["diameter"]
            sep = tuple(k.get("separation") or [d + 1 for d in diam])
            margin = tuple(max(d // 2, s // 2 - 1, d // 2) for d, s in zip(diam, sep))
            c = np.asarray(grey_dilation(a, sep, k.get("percentile", 64), margin, precise=False))
            out.append(c.reshape(-1, a.ndim).astype(np.int64))
    except Exception:
        return None, None, None
    a, b = out
    b = b[:, np.argsort(perm)] if len(b) else b      # axis j of the permuted frame is axis perm[j]
    if len(a) != len(b):
        return len(a), len(b), False
    if len(a) == 0:
        return 0, 0, True
    a = a[np.lexsort(a.T[::-1])]
    b = b[np.lexsort(b.T[::-1])]
    return len(a), len(b), bool(np.array_equal(a, b))


def run_transpose(ctx, inp):
    res = Result()
    img = build(inp)
    nd = img.ndim
    perm = inp["perm"]
    kw = inp["kw"]
    names = NAMES[-nd:]
    imgT = np.transpose(img, perm)
    if not inp.get("view"):
        imgT = np.ascontiguousarray(imgT)
    kwT = dict(kw)
    for k in ("diameter", "separation", "smoothing_size"):
        if kw.get(k) is not None:
            kwT[k] = perm_list(kw[k], perm)
    res.stat("transpose_cases")
    iso = len(set(kw["diameter"])) == 1
    for k in ("transpose_ndim_%d" % nd, "transpose_kind_" + str(inp.get("kind")),
              "transpose_engine_" + kw["engine"], "transpose_iso" if iso else "transpose_aniso",
              "transpose_view" if inp.get("view") else "transpose_copy"):
        res.stat(k)
    sig = dict(stream="transpose", ndim=nd)
    if inp.get("big"):
        res.stat("big_cases_oracle_only")
        res.stat("transpose_big_" + inp["big"])
        res.stat("transpose_big_dtype_" + inp["dtype"])
        res.stat("transpose_big_mpx_x10", int(round(img.size / 1e5)))
        rc = inp.get("recipe") or {}
        st = rc.get("stripes")
        res.stat("transpose_big_stripes_%s" % ("none" if not st else "%s_axis%d_period%d"
                                               % (st["mode"], st["axis"], st["period"])))
        res.stat("transpose_big_nonzero_px_gt_1e6" if int(np.count_nonzero(img)) > 10 ** 6
                 else "transpose_big_nonzero_px_le_1e6")
        sig["big"] = inp["big"]
        # the candidate maxima first (vectorised, cheap): they must be the transposed candidates;
        # a frame with a candidate on every pixel of a plateau is not refined (python engine)
        na, nb_, same_c = big_candidates(img, imgT, kw, kwT, perm)
        if na is None:
            res.stat("transpose_big_candidates_raise")
        else:
            res.stat("transpose_big_candidates", na)
            if not same_c:
                res.violation("property-violation",
                              "axes permuted by %s on a %s frame: the candidate maxima of the transposed frame "
                              "are not the transposed candidates (%d vs %d)" % (perm, "x".join(map(str, img.shape)), na, nb_),
                              impl=dict(candidates=na, candidates_transposed=nb_),
                              signature=dict(sig, what="transpose-changes-candidates"))
                if max(na, nb_) > BIG_CANDIDATE_CAP:
                    return res
            elif na > BIG_CANDIDATE_CAP:
                res.stat("transpose_big_too_many_candidates_skipped")
                return res
    st0, ref = run_locate(img, locate_kwargs({k: v for k, v in kw.items() if k != "topn"}))
    kwargs = locate_kwargs(kw, ref if st0 == "ok" else None)
    if "topn" in kwargs:
        res.stat("transpose_topn_cases")
        stU, U = run_locate(img, {k: v for k, v in kwargs.items() if k != "topn"})
        if stU == "ok" and len(U) > kwargs["topn"]:
            res.stat("transpose_topn_cuts")
            ms = np.sort(U["mass"].values.astype(float))[::-1]
            if ms[kwargs["topn"] - 1] == ms[kwargs["topn"]]:
                res.borderline = True          # equal masses at the cut: the choice is order dependent
                res.stat("transpose_topn_cut_tied")
                return res
    kwargsT = dict(kwargs)
    for k in ("diameter", "separation", "smoothing_size"):
        if k in kwargs:
            kwargsT[k] = tuple(kwT[k])
    stA, A = run_locate(img, kwargs)
    stB, B = run_locate(imgT, kwargsT)
    if stA != stB or (stA == "raise" and A.split(":")[0] != B.split(":")[0]):
        res.violation("property-violation", "locate raises for one axis order only",
                      impl=dict(a=str(A)[:300], b=str(B)[:300]),
                      signature=dict(sig, what="transpose-changes-exception"))
        return res
    if stA == "raise":
        res.stat("transpose_both_raise")
        return res
    # axis j of the transposed image is axis perm[j] of the original: rename B's per-axis columns
    ren = {}
    for j in range(nd):
        for pref in ("", "size_", "ep_"):
            ren[pref + names[j]] = pref + names[perm[j]]
    B = B.rename(columns=ren)
    B = B[[c for c in A.columns if c in B.columns] + [c for c in B.columns if c not in A.columns]]
    res.stat("transpose_features", len(A))
    bad, detail = compare_tables(A, B, names, [0] * nd)
    if detail and detail.startswith("C08-ep-defect"):
        res.stat("c08_aniso_ep_defect_ep_columns_skipped")
    if bad:
        if [c for c in bad if c != "ecc"] and (full_tie(img, kw) or full_tie(imgT, kwT)):
            # rows differ (not only ecc): a full tie of the de-duplication is decided by row order
            res.borderline = True
            res.stat("transpose_full_tie_skipped")
            return res
        rest = [c for c in bad if c != "ecc"]
        if "ecc" in bad and not rest:      # with other columns differing the rows are not aligned
            res.violation("property-violation",
                          "axes permuted by %s: ecc differs (%s)" % (perm, detail),
                          impl=dict(a=A["ecc"].values[:8].tolist(), b=B["ecc"].values[:8].tolist()),
                          signature=dict(what="ecc-changes-under-transposition"))
        if rest:
            what = "transpose-changes-rows" if rest[0].startswith("<") else "transpose-changes-" + rest[0]
            res.violation("property-violation",
                          "axes permuted by %s: locate differs in %s (%s)" % (perm, rest, detail),
                          impl=dict(a=A.head(6).to_dict("list"), b=B.head(6).to_dict("list")),
                          signature=dict(sig, what=what))
    res.nontrivial = len(A) > 0
    if len(A):
        res.sample = dict(stream="transpose", shape=inp["shape"], perm=perm, features=len(A),
                          first_a=[float(v) for v in A.iloc[0].values][:6],
                          first_b_renamed=[float(v) for v in B.iloc[0].values][:6])
    return res


# ------------------------------------------------------------------------------------------
# batch

class Img(np.ndarray):
    """minimal pims-free frame: an array with a frame number"""
    def __new__(cls, arr, frame_no):
        obj = np.asarray(arr).view(cls)
        obj.frame_no = frame_no
        return obj

    def __array_finalize__(self, obj):
        self.frame_no = getattr(obj, "frame_no", None)


class Seq:
    """minimal reader-like sequence (len / getitem / iter), not a list"""
    def __init__(self, frames):
        self._f = list(frames)

    def __len__(self):
        return len(self._f)

    def __getitem__(self, i):
        return self._f[i]

    def __iter__(self):
        return iter(self._f)


def _undaemon():
    import multiprocessing
    cp = multiprocessing.current_process()
    old = cp._config.get("daemon")
    cp._config["daemon"] = False
    return cp, old


def run_batch(ctx, inp):
    import pandas as pd
    import trackpy as tp
    res = Result()
    shape = inp["shape"]
    frames = []
    for f, no in zip(inp["frames"], inp["frame_nos"]):
        if f.get("recipe") is not None:
            a = render(f["recipe"])             # the one big frame (its own shape and dtype)
        elif f["pixels"] is None:
            a = np.zeros(shape, dtype=np.uint8)
        else:
            a = np.array(f["pixels"], dtype=np.uint8).reshape(shape)
        frames.append(a if no is None else Img(a, no))
    kw = dict(inp["kw"])
    diam = kw.pop("diameter")
    res.stat("batch_cases")
    res.stat("batch_frames", len(frames))
    res.stat("batch_container_" + inp["container"])
    res.stat("batch_frameno_" + ("attr" if any(n is not None for n in inp["frame_nos"]) else "position"))
    sig = dict(stream="batch")
    if inp.get("big"):
        res.stat("big_cases_oracle_only")       # (the model only sees the row counts per frame)
        res.stat("batch_big_" + inp["big"])
        sig["big"] = inp["big"]
        for f, fr in zip(inp["frames"], frames):
            if f.get("recipe") is not None:
                res.stat("batch_big_dtype_" + f["recipe"]["dtype"])
                nc = candidate_count(np.asarray(fr), dict(kw, diameter=diam))
                if nc is not None:
                    res.stat("batch_big_candidates", nc)
                    if nc > BIG_CANDIDATE_CAP:     # not worth minutes of python-engine refinement
                        res.stat("batch_big_too_many_candidates_skipped")
                        return res
    # expectation from the statement: locate on each frame, tagged, concatenated
    parts, counts = [], []
    for i, fr in enumerate(frames):
        t = tp.locate(fr, diam, **kw)
        t = t.copy()
        no = inp["frame_nos"][i]
        t["frame"] = i if no is None else no
        counts.append(len(t))
        if len(t):
            parts.append(t)
    res.stat("batch_empty_frames", sum(1 for c in counts if c == 0))
    expected = pd.concat(parts).reset_index(drop=True) if parts else None
    cp, old = _undaemon()
    got = {}
    try:
        for p in inp["procs"]:
            arg = frames if inp["container"] == "list" else Seq(frames)
            try:
                got[p] = tp.batch(arg, diam, processes=p, **kw)
            except Exception as e:
                res.violation("property-violation", "batch(processes=%r) raised %s: %s"
                              % (p, type(e).__name__, str(e)[:200]),
                              signature=dict(sig, what="batch-raises", processes=str(p)))
                return res
            res.stat("batch_processes_%s" % p)
    finally:
        cp._config["daemon"] = old

    def same(a, b):
        if a is None or len(a) == 0 or b is None or len(b) == 0:
            return (a is None or len(a) == 0) and (b is None or len(b) == 0), "one table empty"
        if list(a.columns) != list(b.columns):
            return False, "columns %s vs %s" % (list(a.columns), list(b.columns))
        if len(a) != len(b):
            return False, "%d vs %d rows" % (len(a), len(b))
        if list(a.index) != list(b.index):
            return False, "index differs"
        for c in a.columns:
            if not np.array_equal(a[c].values.astype(float), b[c].values.astype(float), equal_nan=True):
                return False, "column %s differs" % c
        return True, None

    for p, t in got.items():
        ok, why = same(expected, t)
        if not ok:
            res.violation("property-violation",
                          "batch(processes=%r) is not the concatenation of locate per frame: %s" % (p, why),
                          impl=dict(frames=[int(v) for v in t["frame"].values] if len(t) else [],
                                    expected=[int(v) for v in expected["frame"].values] if expected is not None else []),
                          signature=dict(sig, what="batch-not-concat", processes=str(p)))
    first = got[inp["procs"][0]]
    for p in inp["procs"][1:]:
        ok, why = same(first, got[p])
        if not ok:
            res.violation("property-violation", "batch differs between processes=%r and %r: %s"
                          % (inp["procs"][0], p, why),
                          signature=dict(sig, what="batch-depends-on-processes", processes=str(p)))
    # the model: rows as (frame, row index within the frame)
    fn = ",".join("n" if n is None else str(n) for n in inp["frame_nos"])
    m = common.kv(ctx.ask("C09BATCH %s | %s" % (",".join(map(str, counts)), fn)))
    mrows = [tuple(int(v) for v in t.split(":")) for t in m["rows"].split(";")] if m.get("rows") else []
    erows = []
    for i, c in enumerate(counts):
        no = inp["frame_nos"][i]
        erows += [(i if no is None else no, j) for j in range(c)]
    if mrows != erows:
        res.violation("correspondence-break", "batchModel differs from the statement's concatenation",
                      model=mrows[:20], impl=erows[:20], broken="batchModel / batch_is_concat",
                      signature=dict(sig, what="model-batch"))
    elif not res.viol and len(first) and [int(v) for v in first["frame"].values] != [r[0] for r in mrows]:
        res.violation("correspondence-break", "frame column of batch differs from batchModel",
                      model=[r[0] for r in mrows], impl=[int(v) for v in first["frame"].values],
                      broken="batchModel", signature=dict(sig, what="model-batch-frames"))
    res.nontrivial = expected is not None and len(inp["procs"]) >= 2
    res.sample = dict(stream="batch", frame_nos=inp["frame_nos"], rows_per_frame=counts,
                      processes=[str(p) for p in inp["procs"]], container=inp["container"])
    return res


# ------------------------------------------------------------------------------------------
# stage-level model correspondence

def rs(x):
    return common.rat_str(Fraction(x) if not isinstance(x, float) else Fraction(x))


def parse_pts(s):
    if not s or s is True:
        return []
    return [tuple(int(v) for v in t.split(",")) for t in s.split(";")]


def tp_maxima(img, sep, pct, margin):
    from trackpy.find import grey_dilation
    nd = img.ndim
    m = tuple(int(s / 2) for s in sep) if margin == "d" else tuple(margin)
    r = grey_dilation(img, tuple(sep), pct, m, precise=False)
    return [tuple(int(v) for v in row) for row in np.asarray(r).reshape(-1, nd)]


def thr_borderline(img, pct):
    nz = np.sort(img[img != 0].ravel().astype(np.int64))
    if len(nz) == 0:
        return False
    pos = Fraction(len(nz) - 1) * Fraction(pct) / 100
    lo = int(pos)
    g = pos - lo
    a, b = int(nz[lo]), int(nz[min(lo + 1, len(nz) - 1)])
    thr = Fraction(a) + (Fraction(b) - a) * g
    vals = set(int(v) for v in nz)
    return any(v != thr and abs(Fraction(v) - thr) < Fraction(1, 10 ** 9) for v in vals) or \
        (thr.denominator != 1 and any(abs(Fraction(v) - thr) < Fraction(1, 10 ** 6) for v in vals))


def run_stage_maxima_shift(ctx, res, inp):
    content = np.array(inp["pixels"], dtype=np.int64).reshape(inp["shape"]).astype(np.uint16)
    nd = content.ndim
    sep, margin, pct = inp["sep"], inp["margin"], inp["pct"]
    big1, big2 = embed(content, inp["canvas"], inp["off1"]), embed(content, inp["canvas"], inp["off2"])
    mg = "d" if margin == "d" else ",".join(map(str, margin))
    line = "C09GD %s | %s | %s | %s | %s | %s | %s | %s" % (
        ",".join(map(str, inp["shape"])), ",".join(map(str, inp["canvas"])),
        ",".join(map(str, inp["off1"])), ",".join(map(str, inp["off2"])),
        ",".join(rs(float(s)) for s in sep), rs(pct), mg, ",".join(map(str, inp["pixels"])))
    r = ctx.ask(line)
    sig = dict(stream="stage", which="maxima_shift")
    try:
        code = [tp_maxima(big1, sep, pct, margin), tp_maxima(big2, sep, pct, margin)]
    except Exception as e:
        if r != "reject":
            res.violation("correspondence-break", "grey_dilation raised %s, model answers" % e,
                          broken="greyDilation", signature=dict(sig, what="raise"))
        res.stat("stage_reject")
        return
    if r == "reject":
        res.stat("stage_reject")
        res.violation("correspondence-break", "model rejects, grey_dilation answers", broken="wellFormed",
                      signature=dict(sig, what="reject"))
        return
    if thr_borderline(content, pct):
        res.borderline = True
        return
    m = common.kv(r)
    pts = [parse_pts(m.get("pts1")), parse_pts(m.get("pts2"))]
    res.stat("stage_maxima_shift_hyp_%s" % m["hyp"])
    res.stat("stage_maxima", len(pts[0]))
    for k in (0, 1):
        if pts[k] != code[k]:
            res.violation("correspondence-break", "greyDilation(embed) differs from grey_dilation on the "
                          "embedded numpy image (offset %d)" % (k + 1), impl=code[k][:30], model=pts[k][:30],
                          broken="Locate.embed / Find.greyDilation", signature=dict(sig, what="maxima"))
            return
    if m["emb"] != "1":
        res.violation("correspondence-break", "Locate.embed does not satisfy the relation IsEmbed the shift "
                      "theorems assume (isEmbedB)", broken="IsEmbed / isEmbedB_sound",
                      signature=dict(sig, what="embed-relation"))
    if m["thr1"] != m["thr2"] or m["thr1"] != m["thr0"]:
        res.violation("correspondence-break", "model threshold depends on the offset: %s %s %s"
                      % (m["thr0"], m["thr1"], m["thr2"]), broken="thr_shift", signature=dict(sig, what="thr"))
    if m["hyp"] == "1" and m["same"] != "1":
        res.violation("correspondence-break", "hypotheses of maxima_shift hold but the model's maxima do "
                      "not move with the offset", model=dict(p1=pts[0][:20], p2=pts[1][:20]),
                      broken="maxima_shift", signature=dict(sig, what="theorem-instance"))
    if m["hyp"] == "1":
        delta = [b - a for a, b in zip(inp["off1"], inp["off2"])]
        moved = [tuple(v + d for v, d in zip(p, delta)) for p in code[0]]
        if moved != code[1]:
            res.violation("property-violation", "grey_dilation: maxima do not move with the content",
                          impl=dict(a=code[0][:20], b=code[1][:20]),
                          signature=dict(sig, what="maxima-not-shifted"))
    res.nontrivial = len(pts[0]) > 0


def run_stage_maxima_transpose(ctx, res, inp):
    img = np.array(inp["pixels"], dtype=np.int64).reshape(inp["shape"]).astype(np.uint16)
    nd = img.ndim
    sep, margin, pct = inp["sep"], inp["margin"], inp["pct"]
    mg = "d" if margin == "d" else ",".join(map(str, margin))
    r = ctx.ask("C09GDT %s | %s | %s | %s | %s" % (
        ",".join(map(str, inp["shape"])), ",".join(rs(float(s)) for s in sep), rs(pct), mg,
        ",".join(map(str, inp["pixels"]))))
    sig = dict(stream="stage", which="maxima_transpose")
    imgT = np.ascontiguousarray(img.T)
    try:
        a = tp_maxima(img, sep, pct, margin)
        b = tp_maxima(imgT, sep[::-1], pct, margin if margin == "d" else margin[::-1])
    except Exception as e:
        if r != "reject":
            res.violation("correspondence-break", "grey_dilation raised %s, model answers" % e,
                          broken="greyDilation", signature=dict(sig, what="raise"))
        res.stat("stage_reject")
        return
    if r == "reject":
        res.violation("correspondence-break", "model rejects, grey_dilation answers", broken="wellFormed",
                      signature=dict(sig, what="reject"))
        return
    if thr_borderline(img, pct):
        res.borderline = True
        return
    m = common.kv(r)
    p, pT = parse_pts(m.get("pts")), parse_pts(m.get("ptsT"))
    res.stat("stage_maxima_transpose")
    res.stat("stage_maxima", len(p))
    if p != a or pT != b:
        res.violation("correspondence-break", "greyDilation(revImg) differs from grey_dilation(img.T)",
                      impl=dict(a=a[:20], b=b[:20]), model=dict(a=p[:20], b=pT[:20]),
                      broken="Locate.revImg / Find.greyDilation", signature=dict(sig, what="maxima"))
        return
    if m["tr"] == "0":
        res.violation("correspondence-break", "Locate.revImg does not satisfy the relation IsTranspose "
                      "(isTransposeB)", broken="IsTranspose / isTransposeB_sound",
                      signature=dict(sig, what="transpose-relation"))
    if m["same"] != "1":
        res.violation("correspondence-break", "model maxima of the reversed image are not the reversed maxima",
                      model=dict(a=p[:20], b=pT[:20]), broken="maxima_transpose",
                      signature=dict(sig, what="theorem-instance"))
    if sorted(a) != sorted(tuple(reversed(q)) for q in b):
        res.violation("property-violation", "grey_dilation: maxima of the transposed image are not the "
                      "transposed maxima", impl=dict(a=a[:20], b=b[:20]),
                      signature=dict(sig, what="maxima-not-transposed"))
    res.nontrivial = len(p) > 0


def c07ref(ctx, shape, radius, thr, max_iter, img, raw, starts):
    line = "C07REF %s | %s | %s | %d | %s | %s | %s" % (
        ",".join(map(str, shape)), ",".join(map(str, radius)), common.rat_str(Fraction(float(thr))),
        max_iter, ",".join(map(str, img)), ",".join(map(str, raw)),
        " ; ".join(",".join(map(str, s)) for s in starts))
    out = []
    for part in ctx.ask(line).split(" # "):
        d = common.kv(part)
        out.append(d)
    return out


def run_stage_refine(ctx, res, inp):
    import trackpy.refine.center_of_mass as com
    shape, radius, nd = inp["shape"], inp["radius"], len(inp["shape"])
    content = np.array(inp["pixels"], dtype=np.int64).reshape(shape)
    rawc = np.array(inp["raw"], dtype=np.int64).reshape(shape)
    canvas, o1, o2 = inp["canvas"], inp["off1"], inp["off2"]
    sig = dict(stream="stage", which="refine")
    bigs = [(embed(content, canvas, o), embed(rawc, canvas, o), o) for o in (o1, o2)]
    recs = []
    for img, raw, o in bigs:
        starts = [[a + b for a, b in zip(s, o)] for s in inp["starts"]]
        recs.append(c07ref(ctx, canvas, radius, inp["thr"], inp["max_iter"],
                           [int(v) for v in img.ravel()], [int(v) for v in raw.ravel()], starts))
    res.stat("stage_refine")
    delta = [b - a for a, b in zip(o1, o2)]
    for f, s in enumerate(inp["starts"]):
        a, b = recs[0][f], recs[1][f]
        if a["zeromass"] == "1" or b["zeromass"] == "1":
            res.stat("stage_refine_zeromass_skipped")
            continue
        hyp = all(common.kv(ctx.ask("C09CLIP %s | %s | %d | %s" % (
            ",".join(map(str, radius)), ",".join(map(str, canvas)), inp["max_iter"],
            ",".join(str(x + y) for x, y in zip(s, o)))))["ok"] == "1" for o in (o1, o2))
        res.stat("stage_refine_hyp_%d" % hyp)
        if not hyp:
            continue
        ca = [int(v) for v in a["centre"].split(",")]
        cb = [int(v) for v in b["centre"].split(",")]
        pa = [Fraction(v) for v in a["pos"].split(",")]
        pb = [Fraction(v) for v in b["pos"].split(",")]
        okm = ([x + d for x, d in zip(ca, delta)] == cb and [x + d for x, d in zip(pa, delta)] == pb
               and all(a[k] == b[k] for k in ("mass", "rg2", "ecc", "signal", "raw", "evals")))
        if not okm:
            res.violation("correspondence-break", "clipFree holds but the model's refinement does not move "
                          "with the offset", model=dict(a=a, b=b), broken="refine_shift",
                          signature=dict(sig, what="theorem-instance"))
        res.nontrivial = res.nontrivial or int(a["evals"]) >= 2
    # transposition (2-D): model on the transposed arrays, per-axis parameters reversed
    if nd == 2:
        big, braw, o = bigs[0]
        T, Tr = np.ascontiguousarray(big.T), np.ascontiguousarray(braw.T)
        starts = [[a + b for a, b in zip(s, o)] for s in inp["starts"]]
        rt = c07ref(ctx, canvas[::-1], radius[::-1], inp["thr"], inp["max_iter"],
                    [int(v) for v in T.ravel()], [int(v) for v in Tr.ravel()], [s[::-1] for s in starts])
        code = np.asarray(com.refine_com_arr(Tr.astype(np.uint16), T.astype(np.uint16), tuple(radius[::-1]),
                                             np.array([s[::-1] for s in starts], dtype=float),
                                             max_iterations=inp["max_iter"], engine="python",
                                             shift_thresh=float(inp["thr"]), characterize=True), dtype=float)
        code0 = np.asarray(com.refine_com_arr(braw.astype(np.uint16), big.astype(np.uint16), tuple(radius),
                                              np.array(starts, dtype=float), max_iterations=inp["max_iter"],
                                              engine="python", shift_thresh=float(inp["thr"]),
                                              characterize=True), dtype=float)
        iso = len(set(radius)) == 1
        for f in range(len(starts)):
            a, b = recs[0][f], rt[f]
            if a["zeromass"] == "1" or b["zeromass"] == "1" or a["inside"] != "1":
                continue
            if Fraction(a["margin"]) < Fraction(1, 10 ** 9) or Fraction(b["margin"]) < Fraction(1, 10 ** 9):
                res.stat("stage_refine_tie_skipped")
                continue
            res.stat("stage_refine_transpose")
            ea = a["ecc"].split(",")
            eb = b["ecc"].split(",")
            okm = (a["centre"].split(",")[::-1] == b["centre"].split(",")
                   and a["pos"].split(",")[::-1] == b["pos"].split(",")
                   and all(a[k] == b[k] for k in ("mass", "signal", "raw", "evals"))
                   and (a["rg2"].split(",")[::-1] == b["rg2"].split(","))
                   and Fraction(eb[0]) == -Fraction(ea[0]) + 2 * int(ea[2])   # refine_transpose_ecc, centreCos = 1
                   and Fraction(ea[1]) == Fraction(eb[1])
                   and ea[2] == eb[2])
            if not okm:
                res.violation("correspondence-break", "model refinement of the transposed image is not the "
                              "transposed refinement", model=dict(a=a, b=b), broken="refine_transpose / refine_transpose_ecc",
                              signature=dict(sig, what="theorem-instance-transpose"))
            # the code on the transposed arrays against the code on the original ones
            r0, r1 = code0[f], code[f]
            k = 1 if iso else 2
            cols0 = list(r0[:2][::-1]) + [r0[2]] + list(r0[3:3 + k][::-1]) + list(r0[3 + k:])
            names = ["y", "x", "mass"] + ["size"] * k + ["ecc", "signal", "raw_mass"]
            badn = []
            for name, u, v in zip(names, cols0, r1):
                if name == "ecc":
                    m_, s_ = float(r0[2]), float(r0[3 + k + 1])
                    ok = abs(u - v) <= TOL * (abs(m_) / max(1e-6, m_ - s_ + 1e-6) + abs(u))
                else:
                    ok = close(u, v)
                if not ok:
                    badn.append((name, u, v))
            if [n for n, _, _ in badn] == ["ecc"]:
                # narrow: ONLY ecc differs on the transposed pair, every other column agrees
                res.violation("property-violation", "refine_com_arr on the transposed image: ecc differs "
                              "(%r vs %r), every other column agrees" % badn[0][1:],
                              impl=dict(a=r0.tolist(), b=r1.tolist()),
                              signature=dict(what="ecc-changes-under-transposition"))
            else:
                for name, u, v in badn:
                    if name != "ecc":
                        res.violation("property-violation", "refine_com_arr on the transposed image: %s "
                                      "differs (%r vs %r)" % (name, u, v), impl=dict(a=r0.tolist(), b=r1.tolist()),
                                      signature=dict(sig, what="refine-transpose-" + name))
            # model (centreCos = 1, the code as it is) against the code: ecc of both orientations
            for rec, row in ((a, r0), (b, r1)):
                st = ecc_model_vs_code(rec, float(row[3 + k]))
                res.stat("stage_refine_ecc_" + st)
                if st == "differs":
                    res.violation("correspondence-break", "model ecc (centre weight 1) differs from refine_com_arr",
                                  model=rec["ecc"], impl=float(row[3 + k]), broken="eccAt / centreCos",
                                  signature=dict(sig, what="ecc-model"))


def ecc_model_vs_code(rec, code_ecc):
    """the model's ecc (sums e1, e2 with the code's centre weight 1, centre pixel cp) against the
    code's number: 'agrees'; 'code_weight0' = the code has the centre weight 0 (a tree with
    repo-fixes/C09-cosmask-centre.patch applied: the code then satisfies the property where the
    model, which mirrors the unrepaired code, does not — accepted); 'differs' otherwise"""
    e1, e2, cp = rec["ecc"].split(",") if isinstance(rec["ecc"], str) else rec["ecc"]
    e1, e2, cp = Fraction(e1), Fraction(e2), int(cp)
    mass = float(Fraction(rec["mass"]))
    den = mass - cp + 1e-6
    tol = 1e-9 * (mass / den + 1)
    m1 = math.sqrt(float(e1 * e1 + e2 * e2)) / den
    if abs(m1 - code_ecc) <= tol * (1 + abs(m1)):
        return "agrees"
    m0 = math.sqrt(float((e1 - cp) ** 2 + e2 * e2)) / den
    if abs(m0 - code_ecc) <= tol * (1 + abs(m0)):
        return "code_weight0"
    return "differs"


def run_stage_bandpass(ctx, res, inp):
    from trackpy.preprocessing import bandpass
    from .c10 import kernel_frac
    shape, canvas = inp["shape"], inp["canvas"]
    content = np.array(inp["pixels"], dtype=np.float64).reshape(shape)
    ls, ll, thr = inp["lshort"], inp["llong"], inp["threshold"]
    kern = ",".join(common.rat_str(v) for v in kernel_frac(float(ls), 4))
    sig = dict(stream="stage", which="bandpass_shift")
    outs, codes = [], []
    for o in (inp["off1"], inp["off2"]):
        big = embed(content, canvas, o)
        r = ctx.ask("BP %s | %s | %s | %s | %s | %s" % (
            ",".join(map(str, canvas)), ",".join([rs(float(ls))] * 2), ";".join([kern] * 2),
            ",".join(map(str, ll)), rs(float(thr)), ",".join(str(int(v)) for v in big.ravel())))
        if not r.startswith("ok"):
            raise RuntimeError("driver BP: %r" % r[:100])
        fr = [Fraction(t) for t in r[3:].strip().split(",")]
        outs.append(fr)
        codes.append(np.asarray(bandpass(big, ls, tuple(ll), thr), dtype=float))
    res.stat("stage_bandpass_shift")
    W = canvas[1]
    m1 = {(i // W, i % W): v for i, v in enumerate(outs[0])}
    m2 = {(i // W, i % W): v for i, v in enumerate(outs[1])}
    d = [b - a for a, b in zip(inp["off1"], inp["off2"])]
    bad = []
    for (y, x), v in m1.items():
        q = (y + d[0], x + d[1])
        if q in m2:
            if m2[q] != v:
                bad.append(((y, x), str(v), str(m2[q])))
        elif v != 0:
            bad.append(((y, x), str(v), "outside"))
    for (y, x), v in m2.items():
        if (y - d[0], x - d[1]) not in m1 and v != 0:
            bad.append(((y, x), "outside", str(v)))
    if bad:
        res.violation("correspondence-break", "model bandpass of the shifted canvas is not the shifted "
                      "bandpass", model=bad[:5], broken="bandpass_shift",
                      signature=dict(sig, what="theorem-instance"))
    scale = max(1.0, float(content.max()))
    for k in (0, 1):
        mod = np.array([float(v) for v in outs[k]]).reshape(canvas)
        near = np.array([abs(v - Fraction(float(thr))) < Fraction(1, 10 ** 7) and v != 0 for v in outs[k]]).reshape(canvas)
        diff = np.abs(mod - codes[k])
        diff[near] = 0
        # values the model clips at the threshold can be rounding residue in the code
        if float(diff.max()) > 1e-9 * scale:
            res.violation("correspondence-break", "model bandpass differs from tp.bandpass on the embedded image "
                          "(max %g)" % float(diff.max()), broken="Bandpass.bandpass",
                          signature=dict(sig, what="values"))
    a, b = codes
    sl1 = tuple(slice(max(0, -dd), min(c, c - dd)) for dd, c in zip(d, canvas))
    sl2 = tuple(slice(max(0, dd), min(c, c + dd)) for dd, c in zip(d, canvas))
    if not np.allclose(a[sl1], b[sl2], rtol=1e-9, atol=1e-9 * scale):
        res.violation("property-violation", "tp.bandpass: filtered content does not move with the offset",
                      signature=dict(sig, what="bandpass-not-shifted"))
    res.nontrivial = any(v != 0 for v in outs[0])


def run_witness(ctx, inp):
    """corpus entry: the Lean witness replayed on the real code (both engines)"""
    import trackpy.refine.center_of_mass as com
    res = Result()
    img = np.array(inp["pixels"], dtype=np.uint8).reshape(inp["shape"])
    res.stat("witness_cases")
    for eng in ("python", "numba"):
        vals = []
        for a in (img, np.ascontiguousarray(img.T)):
            st = [inp["start"], inp["start"][::-1]][len(vals)]
            r = np.asarray(com.refine_com_arr(a, a, tuple(inp["radius"]), np.array([st], dtype=float),
                                              max_iterations=1, engine=eng, characterize=True), dtype=float)
            vals.append(r[0])
        a, b = vals
        badn = []
        for j, name in enumerate(["mass", "size", "ecc", "signal", "raw_mass"]):
            u, v = float(a[2 + j]), float(b[2 + j])
            if abs(u - v) > 1e-9 * (3.0 + abs(u)):
                badn.append((name, u, v))
        for name, u, v in badn:
            if name == "ecc" and len(badn) > 1:
                continue
            sig = dict(what="ecc-changes-under-transposition") if name == "ecc" else \
                dict(stream="witness", what="transpose-changes-" + name)
            res.violation("property-violation", "witness (centre %d, right neighbour %d), engine %s: %s is "
                          "%r, %r for the transposed image" % (img[2, 2], img[2, 3], eng, name, u, v),
                          impl=dict(a=a.tolist(), b=b.tolist()), signature=sig)
        if abs(a[0] - b[1]) > 1e-12 or abs(a[1] - b[0]) > 1e-12:
            res.violation("property-violation", "witness: coordinates not swapped", impl=dict(a=a.tolist(), b=b.tolist()),
                          signature=dict(stream="witness", what="transpose-position"))
    res.nontrivial = True
    return res


def run_stage_locate(ctx, res, inp):
    """Locate.locateModel against the stage calls `locate` makes (bandpass -> convert_to_int ->
    grey_dilation -> refine_com) on a uint8 image"""
    from trackpy.preprocessing import bandpass, convert_to_int
    from trackpy.find import grey_dilation
    import trackpy.refine.center_of_mass as com
    from .c10 import kernel_frac
    shape = inp["shape"]
    raw = np.array(inp["pixels"], dtype=np.uint8).reshape(shape)
    diam = inp["diameter"]
    radius = [d // 2 for d in diam]
    sep = [d + 1 for d in diam]
    margin = [max(r, s // 2 - 1, d // 2) for r, s, d in zip(radius, sep, diam)]
    pre = inp["preprocess"]
    kern = ",".join(common.rat_str(v) for v in kernel_frac(1.0, 4))
    thr06 = common.rat_str(Fraction(0.6))
    sig = dict(stream="stage", which="locate_model")
    r = ctx.ask("C09LOC %s | %d | 1,1 | %s | %s | 1 | %s | %s | %s | %s | %s | %d | %s" % (
        ",".join(map(str, shape)), 1 if pre else 0, ";".join([kern] * 2), ",".join(map(str, diam)),
        ",".join(map(str, sep)), rs(inp["pct"]), ",".join(map(str, margin)), ",".join(map(str, radius)),
        thr06, inp["max_iter"], ",".join(map(str, inp["pixels"]))))
    res.stat("stage_locate_model")
    res.stat("stage_locate_pre_%s" % pre)
    if pre:
        # integer-dtype images get their boxcar computed IN the integer dtype (truncated after
        # every axis pass, preprocessing.py:L74-78 `result = image.copy()`), which Bandpass.boxcarRaw
        # (a model of the float path) does not cover: the model is compared on the float-dtype
        # image holding the same integer values
        raw = raw.astype(np.float64)
    image = bandpass(raw, 1, tuple(diam), 1) if pre else raw
    if pre:
        # the float image the code converts: values within 1e-9 of an integer boundary after scaling
        mx = float(image.max())
        if mx > 0:
            sc = image.clip(min=0) * (255 / mx)
            fr = np.abs(sc - np.round(sc))
            if ((fr < 1e-7) & (np.round(sc) != sc) | ((fr < 1e-7) & (sc > 0) & (np.round(sc) == sc) & (sc != 255))).any():
                res.borderline = True
                return
        if np.any((np.abs(image - 1) < 1e-7) & (image != 0)):
            res.borderline = True
            return
    _, image = convert_to_int(image, np.uint8)
    if r == "reject":
        res.violation("correspondence-break", "locateModel rejects", broken="locateModel",
                      signature=dict(sig, what="reject"))
        return
    parts = r.split(" # ")
    head = common.kv(parts[0])
    work = [int(v) for v in head["work"].split(",")]
    if work != [int(v) for v in image.ravel()]:
        nbad = int(np.sum(np.array(work) != image.ravel()))
        res.violation("correspondence-break", "work image (bandpass+convert_to_int) differs in %d pixels" % nbad,
                      broken="Locate.workImage", signature=dict(sig, what="work-image"))
        return
    if thr_borderline(image, inp["pct"]):
        res.borderline = True
        return
    coords = grey_dilation(image, tuple(sep), inp["pct"], tuple(margin), precise=False)
    if int(head["n"]) != len(coords):
        res.violation("correspondence-break", "locateModel finds %s maxima, grey_dilation %d"
                      % (head["n"], len(coords)), broken="locateModel", signature=dict(sig, what="maxima"))
        return
    if len(coords) == 0:
        return
    out = np.asarray(com.refine_com_arr(raw, image, tuple(radius), np.asarray(coords, dtype=float),
                                        max_iterations=inp["max_iter"], engine="python",
                                        characterize=True), dtype=float)
    iso = len(set(radius)) == 1
    k = 1 if iso else 2
    for f, part in enumerate(parts[1:]):
        d = common.kv(part)
        if Fraction(d["mass"]) == 0:
            continue
        row = out[f]
        pos = [float(Fraction(v)) for v in d["pos"].split(",")]
        rg2 = [float(Fraction(v)) for v in d["rg2"].split(",")]
        e = d["ecc"].split(",")
        den = float(Fraction(d["mass"])) - int(e[2]) + 1e-6
        ecc = math.sqrt(float(Fraction(e[0]) ** 2 + Fraction(e[1]) ** 2)) / den
        mrow = pos + [float(Fraction(d["mass"]))] + [math.sqrt(v) for v in rg2] + [ecc, float(d["signal"]), float(Fraction(d["raw"]))]
        bad = []
        for j, (u, v) in enumerate(zip(mrow, row)):
            if j == 3 + k:
                ok = abs(u - v) <= 1e-9 * (float(Fraction(d["mass"])) / den + abs(u))
            else:
                ok = close(u, v, 1e-3 if j < 2 else 0.0)
            if not ok:
                bad.append(j)
        if bad == [3 + k]:
            # only ecc differs from the model (centre weight 1 = the code as it is)
            if ecc_model_vs_code(dict(ecc=d["ecc"], mass=d["mass"]), float(row[3 + k])) == "code_weight0":
                res.stat("stage_locate_ecc_code_weight0")
                continue
        if bad:
            res.stat("stage_locate_feature_differs")
            res.violation("correspondence-break", "locateModel feature %d differs from refine_com_arr in columns %s"
                          % (f, bad), model=mrow, impl=row.tolist(), broken="locateModel",
                          signature=dict(sig, what="feature"))
            return
    res.nontrivial = True


def run_stage(ctx, inp):
    res = Result()
    w = inp["which"]
    res.stat("stage_cases")
    if w == "maxima_shift":
        run_stage_maxima_shift(ctx, res, inp)
    elif w == "maxima_transpose":
        run_stage_maxima_transpose(ctx, res, inp)
    elif w == "refine":
        run_stage_refine(ctx, res, inp)
    elif w == "bandpass_shift":
        run_stage_bandpass(ctx, res, inp)
    else:
        run_stage_locate(ctx, res, inp)
    return res


def run_case(ctx, inp):
    s = inp.get("stream")
    if s == "shift":
        return run_shift(ctx, inp)
    if s == "transpose":
        return run_transpose(ctx, inp)
    if s == "batch":
        return run_batch(ctx, inp)
    if s == "stage":
        return run_stage(ctx, inp)
    if s == "witness":
        return run_witness(ctx, inp)
    raise ValueError("unknown stream %r" % s)
