"""C20 - trajectory filters are exact; every stage accepts the previous stage's table.

Streams
  table    : ONE case.  Measures the stage x layout table from the live implementation (every
             stage run on representative tables of every index-layout class, compared with the same
             data in a plain default-indexed table), writes it to a standalone Lean file under
             lean/.lake/generated/ and lets the kernel re-check
             `tableClosedExcept liveTable liveInit liveExcl = true` by `decide`, instantiating the
             generic theorem `closed_except_of_table` (Props/C20).  A rejecting / numbers-changing
             entry that is reachable is turned into the concrete pipeline (producer chain ->
             consumer), run on the real code and reported as property-violation.
  filter   : random tables through the real filter_stubs / filter_clusters; function-mode
             correspondence with the Lean model (driver ops FSTUBS / FCLUST) and an independent
             Python oracle written from the statement (exact row set, order, values unchanged).
  pipeline : soundness attack on the layout abstraction: random producer pipelines of depth 1-4
             (thorough: up to 6, and all pipelines up to depth 3) on random tables in random
             layouts; after every prefix every consumer is run on the returned table and on the
             same data in a plain table; acceptance, numbers and the produced layout class are
             compared with each other and with the measured table.
  filterx  : the filters on every DATA class the statement quantifies over ("all trajectory
             tables"): NaN / +-inf entries in `size` and `mass` (and in positions, which the filters
             do not read), trajectories without any measured size, integer / float32 `size` and
             positions, object / int32 / float / categorical / string labels, negative and
             non-contiguous frame numbers, extra columns whose names clash with index level names,
             tables carrying `attrs`; tables that CARRY columns the filters must not read: columns
             written by other stages (cluster, cluster_size, proximity, ep, size_x, size_y, raw_mass,
             signal, ecc, dx, dr, direction), columns whose names contain / extend 'size',
             'particle', 'frame' (size_std, sizes, particle_old, _old_particle, frame_orig, ...)
             with values that look like sizes / labels / frame numbers, columns of non-numeric
             dtype (str, bool, categorical, datetime, timedelta, mixed object), the columns in any
             order; tables that went through a consumer stage which returns a table (the real
             tp.cluster; tp.proximity / tp.relate_frames merged back row by row) before the
             filter; every index layout.  Direct oracle from the statement, computed from the
             `size` / `particle` / `frame` columns ALONE, in
             exact arithmetic (for NaN sizes BOTH readings of "mean size" are accepted, see
             ASSUMPTIONS), values and dtypes of the returned rows unchanged, the caller's table
             (values, index, columns, dtypes, attrs) unchanged, and the same call on the same data
             in a freshly BUILT plain table (no index, no attrs) must return the same rows.
  session  : programs that are DAGs over table OBJECTS, not chains: a table consumed by several
             stages, a stage applied to a table after another stage has seen that object, one
             stage called several times on one object with different parameters, results fed back
             (relinking a linked table with another range, link_partial patches).  The stage
             receives the object itself (no defensive copy).  Every step is compared with (i) the
             statement's direct oracle (filters) and (ii) the same stage on the same data in a
             freshly built plain default-indexed DataFrame (partitions for link / link_partial);
             after every step every live table of the caller must be unmodified (attrs included).
             The tables carry the same extra-column classes as in filterx, and the consumer stages
             that RETURN a table (cluster; proximity / relate_frames merged back by the caller) are
             registers too: their tables flow through producers into the filters (family
             `carried`), where the direct oracle (from `size` / `particle` / `frame` alone, every
             other column unchanged) applies.
"""
import itertools
import json
import os
import subprocess
import tempfile
from fractions import Fraction

import numpy as np

from . import common
from .common import Result

PROP = "C20"
RULE = ("table stream: 1 case = 12 stages x 10 layout classes x 5 representative tables measured on "
        "the live code and re-checked by the Lean kernel; filter stream: tables of 1-7 trajectories "
        "x 1-12 frames with gaps, duplicate labels per frame, shuffled rows, dyadic sizes, thresholds "
        "swept around the observed counts / exact ties with the mean sizes, every index layout; "
        "pipeline stream: random producer chains (depth 1-4; thorough <=6 plus all chains of depth "
        "<=3) started from every initial layout, all 12 stages applied after every prefix.  "
        "filterx stream: the filter tables with NaN/inf sizes and masses, unmeasured trajectories, "
        "int/float32 sizes and positions, object/int32/float/categorical/string labels, negative and "
        "non-contiguous frames, clashing extra columns, attrs, carried columns (60% of the tables: "
        "1-4 columns named like other stages' outputs or containing 'size'/'particle'/'frame', "
        "size-/label-/frame-like or non-numeric values), permuted column order (25%), 30% of the "
        "tables passed through the real cluster / merged-back proximity / relate_frames first; "
        "cuts on the 1/16 grid next to the "
        "trajectory means; session stream: 3-10 step programs over registers in 5 families "
        "(revisit: A(T); U=B(T); A(U) for all 12x5 (A,B); twice; feedback; random DAG biased to "
        "re-used sources; carried: T -> [producer] -> cluster / proximity_merged / relate_merged "
        "-> producers -> filters), results of cluster and of the merges are registers.  "
        "Non-trivial = filter case that both keeps and drops a trajectory / pipeline case with >=2 "
        "accepted producer steps and >=8 consumer comparisons / session with >=3 executed steps and "
        ">=1 table object used more than once; distinct = distinct canonical input.")
ASSUMPTIONS = [
    "index layouts are abstracted to 10 classes (Model/Pipeline.lean Layout); that acceptance, the "
    "produced class and 'same numbers' depend only on the class is an assumption attacked by the "
    "pipeline stream (every observation is compared with the measured table)",
    "pipelines start from tables in the layouts liveInit = every single-level layout except an "
    "index named 'particle' (range, labels, dupLabels, frameIdx, otherNamed); MultiIndex / particle-named layouts are in scope only when a stage returns them",
    "every stage receives a copy of the table (caller-side mutation such as pandas_sort's in-place "
    "rename of the index name is the subject of C18, not of this check)",
    "link / link_partial label new trajectories by integers whose choice is not unique (and differs "
    "from run to run on the same table): their outputs are compared as partitions of the rows",
    "'same numbers' = same column values after sorting rows by (frame, particle, positions, all "
    "columns), index layout ignored for trajectory tables; for the derived tables (drift, msd, "
    "proximity, relate_frames) index values and column values, names ignored; tolerance 1e-9 rel.",
    "pipeline tables carry a generic position offset < 1e-3 so that linking optima are unique; if "
    "link outputs still differ only in the partition, both runs are repeated 3x and a common "
    "partition counts as agreement (counter link_tie_nondeterministic)",
    "a stage that raises on the plain default-indexed table as well (degenerate data: empty table, "
    "one-row trajectories) is not counted against the layout; the chain stops there",
    "filter sizes are k/4 and cuts k/8 or exact group means, so the float mean is compared with the "
    "cut exactly or with margin >= 1/96; a margin < 1e-9 that is not an exact tie is borderline",
    "numba, scikit-learn and pims are absent: link uses the KDTree + recursive/hybrid defaults",
    "'mean size' of a trajectory with NaN sizes is ambiguous in the statement: BOTH readings are "
    "accepted - the mean over the measured (non-NaN) sizes (what pandas computes) and a NaN mean "
    "(not below any cut); a result is flagged only if its row set equals neither; a trajectory "
    "without any measured size (and one with +inf and -inf sizes) has no mean and must never be "
    "returned; the quantile cut is the documented quantile of the measured sizes (not used when "
    "sizes contain inf)",
    "filterx / session: 'the same data in a plain default-indexed table' is a DataFrame freshly "
    "built from the column arrays (same rows, order, columns, dtypes; RangeIndex, empty attrs), so "
    "that no state attached to the table object can be inherited; in the session stream a stage "
    "is handed the caller's object itself and must leave every table of the caller unmodified "
    "(values, index, index names, columns, dtypes, attrs) - the statement allows no modification",
    "session: a rejection / other numbers on the INITIAL table (not returned by a stage) counts only "
    "for the filters (exactness is claimed for all tables); for the other stages it is a counter, as "
    "in the pipeline stream",
    "a table that comes out of cluster or of a caller-side merge of proximity / relate_frames is not "
    "'returned by a trajectory-producing stage' in the statement's list: like the initial table it is "
    "in scope for the filters (exact on ALL tables, judged by the direct oracle from size / particle "
    "/ frame alone, all other columns unchanged); for the other stages a rejection / other numbers on "
    "it is a counter; once a producer has returned a table derived from it the full statement applies",
    "carried columns are never named 'z' (guess_pos_columns reads it as a coordinate) nor 'x_b'/'y_b' "
    "(relate_frames' join suffix); the merged-back proximity / relate_frames columns are attached by "
    "the harness (row order of tp.proximity's result follows the input rows; relate_frames' "
    "displacements are looked up by label, skipped when a label occurs twice in a frame)",
    "categorical and string labels only in filterx: compute_drift / subtract_drift (Series.diff on the "
    "labels) and link_partial (writes integer ids into the label column) reject them on the plain "
    "default-indexed table as well (degenerate by the rule above); integer positions only in "
    "filterx (rounding removes the offsets that make linking optima unique)",
]
MIN_NONTRIVIAL = 20

PRODUCERS = ["link", "link_partial", "filter_stubs", "filter_clusters", "subtract_drift"]
CONSUMERS = ["compute_drift", "msd", "imsd", "emsd", "cluster", "proximity", "relate_frames"]
STAGES = PRODUCERS + CONSUMERS
LAYOUTS = ["range", "labels", "dupLabels", "frameIdx", "particleIdx", "otherNamed",
           "frameParticleMI", "frameMI", "particleMI", "otherMI"]
INIT_LAYOUTS = ["range", "labels", "dupLabels", "frameIdx", "otherNamed"]
LEAN_STAGE = {"link": ".prod .link", "link_partial": ".prod .linkPartial",
              "filter_stubs": ".prod .filterStubs", "filter_clusters": ".prod .filterClusters",
              "subtract_drift": ".prod .subtractDrift", "compute_drift": ".cons .computeDrift",
              "msd": ".cons .msd", "imsd": ".cons .imsd", "emsd": ".cons .emsd",
              "cluster": ".cons .cluster", "proximity": ".cons .proximity",
              "relate_frames": ".cons .relateFrames"}
LEAN_PROD = {"link": ".link", "link_partial": ".linkPartial", "filter_stubs": ".filterStubs",
             "filter_clusters": ".filterClusters", "subtract_drift": ".subtractDrift"}

_TP = {}
_CACHE = {}


def init(ctx):
    _TP["tp"] = common.setup_repo_path()
    import pandas as pd
    _TP["pd"] = pd
    import multiprocessing
    _CACHE["worker"] = multiprocessing.current_process().name != "MainProcess"


def tp():
    return _TP["tp"]


def pd():
    return _TP["pd"]


# ------------------------------------------------------------------------------------------
# tables and layouts

def gen_rows(rng, npart=None, nframes=None, dup=False, close=False, jitter=False):
    """random trajectory table as a list of dict rows (dyadic numbers, gaps, entering/leaving).
    jitter: positions get a generic offset < 1e-3 so that two different assignments of a linking
    step never have equal cost (link's choice among tied optima is legitimately not unique and
    differs from run to run on the same table - see canon_partition)"""
    npart = npart or rng.randint(1, 6)
    nframes = nframes or rng.randint(2, 12)
    f0 = rng.choice([0, 0, 0, 1, 5])
    rows = []
    for p in range(npart):
        a = rng.randint(0, max(0, nframes - 2))
        b = rng.randint(a, nframes - 1) if rng.random() < 0.5 else nframes - 1
        if rng.random() < 0.5:
            a = 0
        x = (4.0 if close else 12.0) * p + rng.randint(0, 8) / 8.0
        y = rng.randint(0, 40) / 8.0
        size = rng.randint(4, 24) / 4.0
        for f in range(a, b + 1):
            x += rng.randint(-4, 6) / 8.0
            y += rng.randint(-4, 6) / 8.0
            if b - a >= 2 and a < f < b and rng.random() < 0.15:
                continue                                        # gap
            jx, jy = (rng.random() * 1e-3, rng.random() * 1e-3) if jitter else (0.0, 0.0)
            rows.append(dict(x=x + jx, y=y + jy, frame=f0 + f, particle=p,
                             size=size + rng.randint(-2, 2) / 4.0,
                             mass=float(rng.randint(50, 400))))
    if not rows:
        rows.append(dict(x=1.0, y=1.0, frame=f0, particle=0, size=2.0, mass=100.0))
    if dup and len(rows) > 1:
        r = dict(rng.choice(rows))
        r["x"] += 0.5
        rows.append(r)                                          # same label twice in one frame
    order = rng.choice(["frame", "particle", "shuffle"])
    if order == "frame":
        rows.sort(key=lambda r: (r["frame"], r["particle"]))
    elif order == "shuffle":
        rng.shuffle(rows)
    lab = rng.choice([0, 0, 1, 2])
    if lab:                                                     # non-contiguous labels
        for r in rows:
            r["particle"] = r["particle"] * 3 + 2 if lab == 1 else 40 - 7 * r["particle"]
    return rows


def make_df(rows, columns=None):
    df = pd().DataFrame(rows, columns=columns or ["x", "y", "frame", "particle", "size", "mass"])
    df["frame"] = df["frame"].astype(np.int64)
    df["particle"] = df["particle"].astype(np.int64)
    return df


def apply_layout(df, layout, variant=0):
    """the same data (rows, order, columns) under the index layout class `layout`"""
    t = df.reset_index(drop=True).copy()
    n = len(t)
    P = pd()
    if layout == "range":
        return t
    if layout == "labels":
        t.index = ([5 * i + 3 for i in range(n)][::-1] if variant % 2 == 0
                   else [(7 * i + 2) % (7 * n + 1) + 10 for i in range(n)])
        return t
    if layout == "dupLabels":
        t.index = [i // 2 for i in range(n)] if variant % 2 == 0 else [i % 3 for i in range(n)]
        return t
    if layout == "frameIdx":
        if variant % 2 == 0:
            return t.set_index("frame", drop=False)              # the trackpy convention
        t.index = P.Index([100 + 2 * i for i in range(n)], name="frame")   # unique values
        return t
    if layout == "particleIdx":
        if variant % 2 == 0 and "particle" in t.columns:
            return t.set_index("particle", drop=False)
        t.index = P.Index(list(range(n)), name="particle")
        return t
    if layout == "otherNamed":
        t.index = P.Index(t["frame"].values if variant % 2 == 0 else [3 * i + 1 for i in range(n)],
                          name="frame_index" if variant % 2 == 0 else "foo")
        return t
    if layout == "frameParticleMI":
        if "particle" in t.columns:
            return t.set_index(["frame", "particle"], drop=False)
        t.index = P.MultiIndex.from_arrays([t["frame"].values, list(range(n))],
                                           names=["frame", "particle"])
        return t
    if layout == "frameMI":                                     # a level named frame, none named particle
        t.index = P.MultiIndex.from_arrays([t["frame"].values, list(range(n))],
                                           names=["frame", None if variant % 2 == 0 else "k"])
        return t
    if layout == "particleMI":
        t.index = P.MultiIndex.from_arrays([list(range(n)), t["particle"].values
                                            if "particle" in t.columns else [0] * n],
                                           names=[None if variant % 2 == 0 else "k", "particle"])
        return t
    if layout == "otherMI":
        t.index = P.MultiIndex.from_arrays([list(range(n)), [i // 2 for i in range(n)]],
                                           names=[None, None] if variant % 2 == 0 else ["a", "b"])
        return t
    raise ValueError(layout)


def classify(df):
    """index layout class of a table (total)"""
    P = pd()
    ix = df.index
    if isinstance(ix, P.MultiIndex):
        names = list(ix.names)
        if "frame" in names and "particle" in names:
            return "frameParticleMI"
        if "particle" in names:
            return "particleMI"
        if "frame" in names:
            return "frameMI"
        return "otherMI"
    if ix.name is None:
        if isinstance(ix, P.RangeIndex) and ix.start == 0 and ix.step == 1:
            return "range"
        if len(ix) and ix.is_unique and ix.dtype.kind in "iu" and \
                np.array_equal(ix.values, np.arange(len(ix))):
            return "range"
        return "labels" if ix.is_unique else "dupLabels"
    if ix.name == "frame":
        return "frameIdx"
    if ix.name == "particle":
        return "particleIdx"
    return "otherNamed"


# ------------------------------------------------------------------------------------------
# stages

def default_params():
    return dict(search_range=3.0, memory=1, link_range=[1, 4], stub_thr=3, cut=None, quantile=0.8,
                separation=5.0)


def run_stage(name, t, par, copy=True):
    """one stage on (a copy of) table t with parameters derived from `par` and the data.
    copy=False (session stream): the stage receives the caller's table OBJECT itself"""
    T = tp()
    if copy:
        t = t.copy()
    if name == "link":
        return T.link(t, par["search_range"], memory=par.get("memory", 0))
    if name == "link_partial":
        fr = t["frame"]
        a = int(fr.min()) + par["link_range"][0]
        b = max(a + 1, int(fr.min()) + par["link_range"][1])
        return T.link_partial(t, par["search_range"], (a, b))
    if name == "filter_stubs":
        return T.filter_stubs(t, par["stub_thr"])
    if name == "filter_clusters":
        if par.get("cut") is None:
            return T.filter_clusters(t, quantile=par.get("quantile", 0.8))
        return T.filter_clusters(t, threshold=par["cut"])
    if name == "subtract_drift":
        if copy and (len(t) + int(t["frame"].sum())) % 2 == 0:
            # the in-place form: the caller's table (here: our private copy) IS the result
            T.subtract_drift(t, inplace=True)
            return t
        return T.subtract_drift(t)
    if name == "compute_drift":
        return T.compute_drift(t)
    if name == "msd":
        p0 = t["particle"].min()
        return T.msd(t[t["particle"] == p0], 0.5, 2.0, max_lagtime=6)
    if name == "imsd":
        return T.imsd(t, 0.5, 2.0, max_lagtime=6)
    if name == "emsd":
        return T.emsd(t, 0.5, 2.0, max_lagtime=6)
    if name == "cluster":
        return T.cluster(t, par["separation"])
    if name == "proximity":
        return T.proximity(t)
    if name == "relate_frames":
        fr = np.unique(t["frame"].values)                         # the two first frames present
        f1 = int(fr[0])
        return T.relate_frames(t, f1, int(fr[1]) if len(fr) > 1 else f1 + 1)
    raise ValueError(name)


def try_stage(name, t, par):
    try:
        return ("ok", run_stage(name, t, par))
    except Exception as e:                                       # judged by the caller
        return ("err", type(e).__name__, str(e)[:160])


def _num(v):
    if v is None:
        return None
    try:
        if isinstance(v, (float, np.floating)):
            return None if np.isnan(v) else float(v)
        if isinstance(v, (int, np.integer, bool, np.bool_)):
            return float(v)
    except Exception:
        pass
    return str(v)


def canon_traj(df):
    """values of a trajectory table, index layout and row order ignored"""
    cols = sorted(str(c) for c in df.columns)
    key = [c for c in ["frame", "particle", "x", "y"] if c in cols] + \
          [c for c in cols if c not in ("frame", "particle", "x", "y")]
    d = {str(c): df[c].values for c in df.columns}
    rows = [tuple(_num(d[c][i]) for c in key) for i in range(len(df))]
    rows.sort(key=lambda r: tuple((0, 0.0, "") if v is None else
                                  ((1, v, "") if isinstance(v, float) else (2, 0.0, v))
                                  for v in r))
    return dict(cols=key, rows=rows)


def canon_derived(obj):
    """a derived table / series: index values + column values (names of the index ignored)"""
    P = pd()
    if isinstance(obj, P.Series):
        obj = obj.to_frame(name="value")
    cols = [str(c) for c in obj.columns]
    ix = obj.index
    if isinstance(ix, P.MultiIndex):
        ixv = [tuple(_num(v) for v in tup) for tup in ix.values]
    else:
        ixv = [(_num(v),) for v in ix.values]
    rows = []
    for i in range(len(obj)):
        rows.append(tuple(ixv[i]) + tuple(_num(obj.iloc[i, j]) for j in range(len(cols))))
    return dict(cols=cols, rows=rows)


def canon_partition(df):
    """link / link_partial name new trajectories by integers whose choice is legitimately not
    unique (set iteration order of Point objects; differs from run to run on the same table):
    compare the PARTITION of the rows into trajectories - labels renamed by first appearance in
    the canonical row order (frame, x, y, remaining columns)."""
    d = {str(c): df[c].values for c in df.columns if c != "particle"}   # labels may be non-strings
    key = [c for c in ["frame", "x", "y"] if c in d] + \
          sorted(c for c in d if c not in ("frame", "x", "y"))
    vals = [tuple(_num(d[c][i]) for c in key) for i in range(len(df))]
    skey = lambda r: tuple((0, 0.0, "") if v is None else
                           ((1, v, "") if isinstance(v, float) else (2, 0.0, v)) for v in r)
    order = sorted(range(len(df)), key=lambda i: skey(vals[i]))
    lab = df["particle"].values
    ren = {}
    rows = []
    for i in order:
        l = _num(lab[i])
        if l not in ren:
            ren[l] = float(len(ren))
        rows.append(vals[i] + (ren[l],))
    return dict(cols=key + ["particle~"], rows=rows)


def canon_out(stage, obj):
    if stage in ("link", "link_partial"):
        return canon_partition(obj)
    if stage in PRODUCERS or stage == "cluster":
        return canon_traj(obj)
    c = canon_derived(obj)
    if stage in ("proximity", "relate_frames"):
        # row order follows the input rows; indexed by particle: compare as a multiset
        c["rows"].sort(key=lambda r: tuple((0, 0.0, "") if v is None else
                                           ((1, v, "") if isinstance(v, float) else (2, 0.0, v))
                                           for v in r))
    return c


def same_numbers(a, b, tol=1e-9):
    if a["cols"] != b["cols"] or len(a["rows"]) != len(b["rows"]):
        return False
    for ra, rb in zip(a["rows"], b["rows"]):
        if len(ra) != len(rb):
            return False
        for u, v in zip(ra, rb):
            if u is None or v is None:
                if u is not v:
                    return False
            elif isinstance(u, float) and isinstance(v, float):
                if u != v and abs(u - v) > tol * max(1.0, abs(u), abs(v)):
                    if not (np.isinf(u) and np.isinf(v) and u == v):
                        return False
            elif u != v:
                return False
    return True


def link_tie_recheck(stage, t, par, out, plain_out):
    """link outputs differ as partitions: a layout effect, or link choosing differently among
    equal-cost assignments (set iteration order of Point objects; happens on identical inputs)?
    Everything but the labels must agree; then the stage is re-run 3x on both tables: if some
    indexed run and some plain run give the same partition it is the tie nondeterminism."""
    drop = lambda d: d.drop(columns=["particle"])
    if not same_numbers(canon_traj(drop(out)), canon_traj(drop(plain_out))):
        return False, False
    a, b = [canon_partition(out)], [canon_partition(plain_out)]
    for _ in range(3):
        r1, r2 = try_stage(stage, t, par), try_stage(stage, t.reset_index(drop=True), par)
        if r1[0] != "ok" or r2[0] != "ok":
            return False, False
        a.append(canon_partition(r1[1]))
        b.append(canon_partition(r2[1]))
    for x in a:
        for y in b:
            if same_numbers(x, y):
                return True, True
    return False, False


def observe(stage, t, par):
    """run `stage` on table t and on the same data in a plain default-indexed table.
    returns dict(status = ok | rejects | differs | degenerate, out=table or None, layout, error)"""
    plain = try_stage(stage, t.reset_index(drop=True), par)
    got = try_stage(stage, t, par)
    if plain[0] == "err":
        return dict(status="degenerate", out=None, layout=None,
                    error=plain[1], both=(got[0] == "err"))
    if got[0] == "err":
        return dict(status="rejects", out=None, layout=None, error=got[1], msg=got[2])
    out = got[1]
    lay = classify(out) if stage in PRODUCERS else None
    same = same_numbers(canon_out(stage, out), canon_out(stage, plain[1]))
    tie = False
    if not same and stage in ("link", "link_partial"):
        same, tie = link_tie_recheck(stage, t, par, out, plain[1])
    if tie:
        return dict(status="ok", out=out, layout=lay, error=None, tie=True)
    return dict(status="ok" if same else "differs", out=out, layout=lay,
                error=None if same else "numbers-differ")


# ------------------------------------------------------------------------------------------
# the measured stage x layout table

def representative_rows():
    """fixed, data-rich representative tables (deterministic: independent of VERIF_SEED)"""
    import random
    reps = []
    for k in range(4):
        rng = random.Random("C20-representative-%d" % k)
        rows = gen_rows(rng, npart=3 + k % 3, nframes=6 + 2 * k, close=(k == 3), jitter=True)
        reps.append(rows)
    # a single trajectory without gaps: every frame number occurs once (unique 'frame' index)
    reps.append([dict(x=1.0 + 0.2501 * f, y=2.0 + 0.5003 * (f % 3), frame=f, particle=4, size=3.0,
                      mass=100.0 + f) for f in range(7)])
    return reps


def measure_table():
    """{"stage|layout": dict(n, acc, mixed, same, outs, errors)} measured by running every stage on
    every representative table under every layout (2 index variants each) and on the same data in
    a plain default-indexed table."""
    table = {}
    reps = [make_df(rows) for rows in representative_rows()]
    par = default_params()
    plain = {}
    for st in STAGES:
        for k, df in enumerate(reps):
            r = try_stage(st, df, par)
            plain[(st, k)] = ("err", r[1]) if r[0] == "err" else ("ok", canon_out(st, r[1]))
    for lay in LAYOUTS:
        for st in STAGES:
            accs, outs, sames, errs = [], [], [], []
            for k, df in enumerate(reps):
                if plain[(st, k)][0] == "err":
                    continue                                    # degenerate data, not the layout
                for variant in (0, 1):
                    t = apply_layout(df, lay, variant)
                    if classify(t) != lay:
                        raise RuntimeError("representative of %s classified %s" % (lay, classify(t)))
                    got = try_stage(st, t, par)
                    accs.append(got[0] == "ok")
                    if got[0] == "err":
                        errs.append(got[1])
                        continue
                    sm = same_numbers(canon_out(st, got[1]), plain[(st, k)][1])
                    if not sm and st in ("link", "link_partial"):
                        sm = observe(st, t, par)["status"] == "ok"
                    sames.append(sm)
                    if st in PRODUCERS:
                        outs.append(classify(got[1]))
            table["%s|%s" % (st, lay)] = dict(
                n=len(accs), acc=bool(accs) and all(accs), mixed=len(set(accs)) > 1,
                same=bool(sames) and all(sames), outs=sorted(set(outs)), errors=sorted(set(errs)))
    return table


def entry_good(ent):
    return ent["acc"] and ent["same"]


def closure(table, init, excl):
    """least set of nodes (producer, layout) reachable from `init` avoiding excluded adjacent pairs,
    with a witness program for each: {node: (l0, [producers])}; and the failing entries."""
    wit = {}
    order = []
    for l0 in init:
        for p in PRODUCERS:
            ent = table["%s|%s" % (p, l0)]
            if ent["acc"]:
                for o in ent["outs"]:
                    if (p, o) not in wit:
                        wit[(p, o)] = (l0, [p])
                        order.append((p, o))
    i = 0
    failing = []
    while i < len(order):
        q, l = order[i]
        i += 1
        for s in STAGES:
            if (q, s) in excl:
                continue
            ent = table["%s|%s" % (s, l)]
            if not entry_good(ent):
                failing.append(dict(node=[q, l], stage=s, witness=[wit[(q, l)][0], wit[(q, l)][1]],
                                    errors=ent["errors"] if not ent["acc"] else ["numbers-differ"]))
            if s in PRODUCERS and ent["acc"]:
                for o in ent["outs"]:
                    if (s, o) not in wit:
                        wit[(s, o)] = (wit[(q, l)][0], wit[(q, l)][1] + [s])
                        order.append((s, o))
    return order, failing


def lean_outcome(ent):
    if not ent["acc"]:
        return ".rejects"
    return ".accepts [%s] %s" % (", ".join("." + o for o in ent["outs"]),
                                 "true" if ent["same"] else "false")


def lean_file(table, init, excl):
    lines = ["import TrackpyV.Props.C20",
             "/-! GENERATED by harness/c20.py from the live implementation - not a library module. -/",
             "open TrackpyV.Pipeline", "",
             "def liveRows : List (Stage × Layout × Outcome) := ["]
    rows = []
    for st in STAGES:
        for lay in LAYOUTS:
            rows.append("  (%s, .%s, %s)" % (LEAN_STAGE[st], lay, lean_outcome(table["%s|%s" % (st, lay)])))
    lines.append(",\n".join(rows) + "]")
    lines += ["", "def liveTable : Table := tableOf liveRows",
              "def liveInit : List Layout := [%s]" % ", ".join("." + l for l in init),
              "def liveExcl : Excl := [%s]" % ", ".join(
                  "(%s, %s)" % (LEAN_PROD[q], LEAN_STAGE[s]) for q, s in excl),
              "", "-- the regenerated obligation, evaluated by the kernel",
              "theorem liveClosed : tableClosedExcept liveTable liveInit liveExcl = true := by "
              "decide +kernel", "",
              "-- instantiation of the generic theorem: every pipeline of any length",
              "theorem pipeline_closed_live : ∀ l0 ∈ liveInit, ∀ (q : Producer) (ps : List Producer) "
              "(l1 l : Layout),",
              "    l1 ∈ outs liveTable q l0 → ChainTo liveTable l1 ps l →",
              "    ∀ s : Stage, Avoids liveExcl q ps s → ∃ o, liveTable s l = .accepts o true :=",
              "  closed_except_of_table liveTable liveInit liveExcl liveClosed", ""]
    return "\n".join(lines)


def driver_line(table, init, excl):
    rows = []
    for si, st in enumerate(STAGES):
        for li, lay in enumerate(LAYOUTS):
            ent = table["%s|%s" % (st, lay)]
            if not ent["acc"]:
                rows.append("%d:%d:R" % (si, li))
            else:
                rows.append("%d:%d:A%d:%s" % (si, li, 1 if ent["same"] else 0,
                                             ",".join(str(LAYOUTS.index(o)) for o in ent["outs"])))
    return "TCLOSED %s # %s # %s" % (" ".join(str(LAYOUTS.index(l)) for l in init),
                                     " ".join("%d:%d" % (PRODUCERS.index(q), STAGES.index(s))
                                              for q, s in excl), " ".join(rows))


def check_lean(src):
    """kernel check of the generated standalone file; returns (ok, output)"""
    d = os.path.join(common.LEAN_DIR, ".lake", "generated")
    os.makedirs(d, exist_ok=True)
    fn = os.path.join(d, "C20_StageTable_%d.lean" % os.getpid())
    with open(fn, "w") as f:
        f.write(src)
    p = subprocess.run(["lake", "env", "lean", fn], cwd=common.LEAN_DIR, stdout=subprocess.PIPE,
                       stderr=subprocess.STDOUT, text=True, timeout=900)
    keep = os.path.join(d, "C20_StageTable.lean")
    try:
        os.replace(fn, keep)
    except OSError:
        pass
    return p.returncode == 0, p.stdout[-3000:]


def known_excl():
    out = []
    for k in common.load_known():
        sig = k.get("signature", {})
        if k.get("status") == "known" and k.get("property") == PROP and \
                sig.get("producer") in PRODUCERS and sig.get("consumer") in STAGES:
            if (sig["producer"], sig["consumer"]) not in out:
                out.append((sig["producer"], sig["consumer"]))
    return out


def cache_path(pid):
    return os.path.join(tempfile.gettempdir(), "verif-C20-table-%d-%d.json" % (os.getuid(), pid))


def live_table():
    """the measured table: from the parent's cache (written by gen_cases) or measured here"""
    if "table" in _CACHE:
        return _CACHE["table"]
    # a pool worker: the parent (gen_cases) measured the table at the start of THIS run and wrote
    # it under its own pid before yielding any case; anything else (replay, single process) measures
    p = cache_path(os.getppid())
    if _CACHE.get("worker") and os.path.exists(p):
        try:
            with open(p) as f:
                rec = json.load(f)
            if rec.get("repo") == os.path.realpath(common.REPO):
                _CACHE["table"] = rec["table"]
                return _CACHE["table"]
        except Exception:
            pass
    _CACHE["table"] = measure_table()
    return _CACHE["table"]


# ------------------------------------------------------------------------------------------
# case generation

def gen_filter(rng, i):
    rows = gen_rows(rng, npart=rng.randint(1, 7), nframes=rng.randint(1, 12),
                    dup=rng.random() < 0.2)
    counts = {}
    for r in rows:
        counts[r["particle"]] = counts.get(r["particle"], 0) + 1
    inp = dict(stream="filter", rows=rows, layout=rng.choice(LAYOUTS), variant=rng.randint(0, 1))
    if i % 2 == 0:
        inp["which"] = "stubs"
        c = rng.choice(sorted(counts.values()))
        inp["thr"] = rng.choice([c, c, c + 1, c - 1, 0, 1, 100, -1])
        if rng.random() < 0.05:
            inp["thr"] = None                                    # the default (100)
    else:
        inp["which"] = "clusters"
        if rng.random() < 0.3:
            inp["quantile"] = rng.choice([0.0, 0.25, 0.5, 0.75, 0.875, 1.0, 0.8, None])
        else:
            p = rng.choice(sorted(counts))
            g = [Fraction(r["size"]) for r in rows if r["particle"] == p]
            m = sum(g) / len(g)
            k = int(m * 16)
            inp["cut16"] = k + rng.choice([0, 0, 1, -1, 2])      # cut = cut16/16; exact tie if m = k/16
    return inp


def gen_pipeline(rng, depth_max):
    depth = rng.randint(1, depth_max)
    chain = [rng.choice(PRODUCERS) for _ in range(depth)]
    rows = gen_rows(rng, close=rng.random() < 0.3, dup=False, jitter=True)
    par = dict(search_range=rng.choice([2.0, 3.0, 5.0]), memory=rng.choice([0, 0, 1, 2]),
               link_range=[rng.randint(0, 2), rng.randint(2, 6)], stub_thr=rng.choice([1, 2, 3, 4]),
               cut=rng.choice([None, None, 3.5, 5.0, 100.0]), quantile=rng.choice([0.5, 0.8, 1.0]),
               separation=rng.choice([2.0, 5.0, 9.0]))
    return dict(stream="pipeline", rows=rows, layout=rng.choice(INIT_LAYOUTS),
                variant=rng.randint(0, 1), chain=chain, par=par,
                drop_particle=(chain[0] in ("link", "link_partial") and rng.random() < 0.3))


def gen_cases(ctx):
    # measure the live table once in the parent; the workers (forked before) read it from the cache
    if not _TP:
        init(ctx)
    path = cache_path(os.getpid())
    table = measure_table()
    _CACHE["table"] = table                                       # single-process runs
    with open(path, "w") as f:
        json.dump(dict(repo=os.path.realpath(common.REPO), table=table), f)
    try:
        yield dict(stream="table")
        for inp in ctx.corpus():
            yield inp
        for i in range(ctx.n(400, 4000)):
            yield gen_filter(ctx.rng("filter", i), i)
        if ctx.thorough:
            # every producer chain of depth <= 3 on 10 tables, initial layouts in rotation
            k = 0
            for depth in (1, 2, 3):
                for chain in itertools.product(PRODUCERS, repeat=depth):
                    for j in range(10):
                        rng = ctx.rng("exh", k)
                        inp = gen_pipeline(rng, 1)
                        inp["chain"] = list(chain)
                        inp["layout"] = INIT_LAYOUTS[k % len(INIT_LAYOUTS)]
                        inp["drop_particle"] = False
                        inp["family"] = "exh3"
                        k += 1
                        yield inp
        for i in range(ctx.n(300, 3000)):
            yield gen_pipeline(ctx.rng("pipeline", i), 6 if ctx.thorough else 4)
        for i in range(ctx.n(320, 3600)):
            yield gen_filterx(ctx.rng("filterx", i), i)
        for i in range(ctx.n(400, 4500)):
            yield gen_session(ctx.rng("session", i), i, ctx.thorough)
    finally:
        try:
            os.unlink(path)
        except OSError:
            pass


# ------------------------------------------------------------------------------------------
# table stream

def run_program(l0, chain, stage, rows, variant, par):
    """run the concrete program on the real code; returns the observation of `stage` on the table
    returned by `chain` (None if the chain itself could not be run on this data)"""
    t = apply_layout(make_df(rows), l0, variant)
    for p in chain:
        r = try_stage(p, t, par)
        if r[0] == "err":
            return None
        t = r[1]
    ob = observe(stage, t, par)
    ob["layout_in"] = classify(t)
    return ob


def run_table_case(ctx, inp):
    res = Result()
    table = live_table()
    excl = known_excl()
    init_l = INIT_LAYOUTS
    res.stat("table_entries", len(table))
    res.stat("table_rejecting_entries", sum(1 for e in table.values() if not e["acc"]))
    res.stat("table_numbers_differ_entries", sum(1 for e in table.values()
                                                 if e["acc"] and not e["same"]))
    res.stat("table_mixed_entries", sum(1 for e in table.values() if e["mixed"]))
    res.stat("table_multi_out_entries", sum(1 for e in table.values() if len(e["outs"]) > 1))
    if any(e["n"] == 0 for e in table.values()):
        raise RuntimeError("a table entry has no measurement: %s"
                           % [k for k, e in table.items() if e["n"] == 0])
    # non-vacuity: every stage is good on the plain layout
    for st in STAGES:
        if not entry_good(table["%s|range" % st]):
            raise RuntimeError("stage %s not accepted on the plain table: harness broken" % st)
    nodes, failing_all = closure(table, init_l, [])
    nodes_ex, failing_ex = closure(table, init_l, excl)
    res.stat("reachable_nodes", len(nodes))
    res.stat("reachable_layouts", len({l for _, l in nodes}))
    res.stat("excluded_pairs", len(excl))
    # the regenerated obligation, checked by the kernel
    ok, out = check_lean(lean_file(table, init_l, excl))
    res.stat("lean_obligation_ok" if ok else "lean_obligation_failed")
    if not ok and "tableClosedExcept liveTable liveInit liveExcl" not in out:
        raise RuntimeError("generated Lean file did not elaborate:\n" + out)   # infrastructure
    # the model's own evaluation (native driver, same definitions)
    m = common.kv(ctx.ask(driver_line(table, init_l, excl)))
    reach_model = sorted(m.get("reach", "").split(";")) if m.get("reach") else []
    reach_py = sorted("%d:%d" % (PRODUCERS.index(q), LAYOUTS.index(l)) for q, l in nodes_ex)
    py_closed = not failing_ex
    if (m.get("closed") == "1") != ok or py_closed != ok or (ok and reach_model != reach_py):
        res.violation("correspondence-break",
                      "kernel check, native model and harness closure disagree: lean=%s driver=%s "
                      "harness=%s" % (ok, m.get("closed"), py_closed), impl=dict(reach=reach_py),
                      model=dict(reach=reach_model, lean=out[-600:]),
                      broken="C20 generated obligation tableClosed",
                      signature=dict(stream="table", what="checker-disagreement"))
    # every failing reachable entry IS a concrete program: run it on the real code
    reps = representative_rows()
    par = default_params()
    seen = set()
    programs = []
    unconfirmed = []
    for f in failing_all:
        q, l = f["node"]
        s = f["stage"]
        l0, chain = f["witness"]
        conf = None
        for k, rows in enumerate(reps):
            for variant in (0, 1):
                ob = run_program(l0, chain, s, rows, variant, par)
                if ob is not None and ob["status"] in ("rejects", "differs"):
                    conf = dict(initial_layout=l0, variant=variant, chain=chain, consumer=s,
                                error=ob["error"], message=ob.get("msg"), table_rows=rows,
                                params=par)
                    break
            if conf:
                break
        if conf is None:
            unconfirmed.append(f)
            continue
        key = (q, s, conf["error"])
        if key in seen:
            continue
        seen.add(key)
        programs.append(conf)
        res.violation("property-violation",
                      "the table returned by %s (pipeline %s on a '%s'-indexed table) is %s by %s: %s"
                      % (q, " -> ".join(chain), l0,
                         "rejected" if conf["error"] != "numbers-differ" else "given other numbers",
                         s, conf["message"] or conf["error"]),
                      impl=conf, model="Props/C20 closed_of_table requires: accepted, same numbers",
                      signature=dict(producer=q, consumer=s, error=conf["error"]))
    if unconfirmed or (not ok and not failing_ex):
        res.violation("correspondence-break",
                      "generated obligation fails but %d failing entries could not be reproduced as "
                      "concrete programs: %s" % (len(unconfirmed), unconfirmed[:3]),
                      impl=dict(unconfirmed=unconfirmed), model=out[-600:],
                      broken="C20 generated obligation tableClosed",
                      signature=dict(stream="table", what="unconfirmed-entry"))
    res.nontrivial = True
    res.sample = dict(stream="table", obligation_ok=ok,
                      reachable=["%s:%s" % n for n in nodes],
                      failing=[dict(producer=p["chain"][-1], consumer=p["consumer"],
                                    error=p["error"]) for p in programs],
                      unreachable_rejecting=sorted(
                          k for k, e in table.items()
                          if not e["acc"] and k.split("|")[1] not in {l for _, l in nodes}))
    return res


# ------------------------------------------------------------------------------------------
# filter stream

def exact_quantile(vals, q):
    """linear-interpolation quantile (pandas / numpy default) in exact arithmetic"""
    v = sorted(vals)
    pos = (len(v) - 1) * Fraction(q)
    lo = int(pos)
    hi = min(lo + 1, len(v) - 1)
    return v[lo] + (v[hi] - v[lo]) * (pos - lo)


def run_filter_case(ctx, inp):
    res = Result()
    rows = inp["rows"]
    n = len(rows)
    df = make_df(rows)
    df["rid"] = np.arange(n)
    t = apply_layout(df, inp["layout"], inp.get("variant", 0))
    which = inp["which"]
    res.stat("filter_%s" % which)
    res.stat("filter_layout_%s" % classify(t))
    parts = [r["particle"] for r in rows]
    counts = {}
    for p in parts:
        counts[p] = counts.get(p, 0) + 1
    body = " ; ".join("%d,%d,%s" % (r["frame"], r["particle"], common.rat_str(Fraction(r["size"])))
                      for r in rows)
    before = t.copy()
    if which == "stubs":
        thr = inp.get("thr")
        try:
            out = tp().filter_stubs(t) if thr is None else tp().filter_stubs(t, thr)
        except Exception as e:
            res.violation("property-violation", "filter_stubs raised %r" % e, impl=repr(e),
                          signature=dict(stream="filter", which=which, error=type(e).__name__))
            return res
        thr_eff = 100 if thr is None else thr
        expect = [i for i in range(n) if counts[parts[i]] >= thr_eff]        # the statement
        m = common.kv(ctx.ask("FSTUBS %d | %s" % (thr_eff, body)))
        margin = None
    else:
        sizes = [Fraction(r["size"]) for r in rows]
        means = {}
        for p in counts:
            g = [sizes[i] for i in range(n) if parts[i] == p]
            means[p] = sum(g) / len(g)
        if "cut16" in inp:
            cut = Fraction(inp["cut16"], 16)
            kwargs = dict(threshold=float(cut))
            exact_cut = True
        else:
            q = inp.get("quantile")
            qq = 0.8 if q is None else q
            cut = exact_quantile(sizes, qq)
            kwargs = {} if q is None else dict(quantile=q)
            exact_cut = Fraction(qq).denominator <= 8
            fl = float(t["size"].quantile(qq))
            if abs(fl - float(cut)) > 1e-9 * max(1.0, abs(fl)):
                res.violation("correspondence-break", "quantile cut differs: pandas %r, exact %s"
                              % (fl, cut), impl=fl, model=str(cut), broken="harness exact_quantile",
                              signature=dict(stream="filter", what="quantile"))
                return res
        margin = min(abs(float(mv - cut)) for mv in means.values())
        if margin < 1e-9 and not (exact_cut and any(mv == cut for mv in means.values())) \
                and margin != 0.0:
            res.borderline = True
            return res
        if not exact_cut and margin < 1e-9:
            res.borderline = True
            return res
        if any(mv == cut for mv in means.values()):
            res.stat("filter_exact_tie")
        try:
            out = tp().filter_clusters(t, **kwargs)
        except Exception as e:
            res.violation("property-violation", "filter_clusters raised %r" % e, impl=repr(e),
                          signature=dict(stream="filter", which=which, error=type(e).__name__))
            return res
        expect = [i for i in range(n) if means[parts[i]] < cut]              # the statement
        m = common.kv(ctx.ask("FCLUST %s | %s" % (common.rat_str(cut), body)))
    if "keep" not in m:
        raise RuntimeError("driver: %r" % m)
    model_keep = [int(x) for x in m["keep"].split(",")] if m["keep"] not in ("", True) else []
    got = [int(x) for x in out["rid"].values]
    # direct oracle (from the statement): exactly these rows, every value unchanged
    cols = list(before.columns)
    bad = None
    if sorted(got) != expect:
        bad = "row set differs: returned rids %s, expected %s" % (sorted(got), expect)
    elif list(out.columns) != cols:
        bad = "columns changed: %s" % list(out.columns)
    else:
        for j, rid in enumerate(got):
            for c in cols:
                a, b = out[c].values[j], before[c].values[rid]
                if not (a == b or (a != a and b != b)):
                    bad = "value changed in row %d column %s: %r -> %r" % (rid, c, b, a)
                    break
            if bad:
                break
    if bad is None and not before.equals(t):
        bad = "the caller's table was modified"
    if bad:
        res.violation("property-violation", "filter_%s: %s" % (which, bad),
                      impl=dict(rids=got), model=dict(rids=model_keep),
                      signature=dict(stream="filter", which=which, what=bad.split(":")[0]))
    elif got != model_keep:
        res.violation("correspondence-break",
                      "filter_%s returns the right rows but not as the model (order): impl %s model %s"
                      % (which, got, model_keep), impl=got, model=model_keep,
                      broken="Filter.filterStubs / Filter.filterClusters (gfilter)",
                      signature=dict(stream="filter", which=which, what="order"))
    lay = classify(out)
    if lay != "frameIdx" or not np.array_equal(out.index.values,
                                                                 out["frame"].values):
        res.violation("correspondence-break", "filter output is not indexed by its frame column: %s"
                      % lay, impl=lay, model="set_index('frame', drop=False)",
                      broken="Model/Filter.lean header (index rebuilt from frame)",
                      signature=dict(stream="filter", which=which, what="index"))
    kept_p = {parts[i] for i in got}
    res.nontrivial = 0 < len(kept_p) < len(counts)
    res.stat("filter_rows", n)
    res.stat("filter_trajectories", len(counts))
    res.stat("filter_kept_all" if len(kept_p) == len(counts) else
             ("filter_kept_none" if not kept_p else "filter_kept_some"))
    if which == "stubs" and any(c == thr_eff for c in counts.values()):
        res.stat("filter_count_equals_threshold")
    if len(set((r["frame"], r["particle"]) for r in rows)) < n:
        res.stat("filter_duplicate_label_in_frame")
    res.sample = dict(stream="filter", which=which, rows=n, kept=len(got),
                      layout=inp["layout"])
    return res


# ------------------------------------------------------------------------------------------
# pipeline stream

def run_pipeline_case(ctx, inp):
    res = Result()
    table = live_table()
    par = inp["par"]
    chain = inp["chain"]
    df = make_df(inp["rows"])
    if inp.get("drop_particle"):
        df = df.drop(columns=["particle"])
    t = apply_layout(df, inp["layout"], inp.get("variant", 0))
    res.stat("pipeline_cases")
    res.stat("pipeline_depth_%d" % len(chain))
    res.stat("pipeline_init_%s" % classify(t))
    if inp.get("family"):
        res.stat("exhaustive_family")
    steps = 0
    comparisons = 0
    prev = None                                                   # producer that returned t

    def judge(stage, lay_in, ob, in_scope):
        """compare one observation with the property (if in scope) and with the measured table"""
        ent = table["%s|%s" % (stage, lay_in)]
        if ob["status"] in ("rejects", "differs"):
            res.stat("observed_%s" % ob["status"])
            if in_scope:
                res.violation(
                    "property-violation",
                    "the table returned by %s (layout %s) is %s by %s (%s)"
                    % (prev, lay_in, "rejected" if ob["status"] == "rejects" else
                       "given other numbers", stage, ob.get("msg") or ob["error"]),
                    impl=dict(layout=lay_in, error=ob["error"], message=ob.get("msg")),
                    model=dict(table_entry=ent),
                    signature=dict(producer=prev, consumer=stage, error=ob["error"]))
            if entry_good(ent):
                res.violation(
                    "correspondence-break",
                    "layout abstraction unsound: measured table says %s is good on layout %s, "
                    "observed %s" % (stage, lay_in, ob["error"]),
                    impl=dict(error=ob["error"], message=ob.get("msg")), model=dict(table_entry=ent),
                    broken="C20 Sem.Sound (stage=%s, layout=%s)" % (stage, lay_in),
                    signature=dict(stream="pipeline", what="abstraction", stage=stage,
                                   layout=lay_in))
        elif ob["status"] == "ok":
            if ob.get("tie"):
                res.stat("link_tie_nondeterministic")
            if not entry_good(ent):
                res.stat("abstraction_pessimistic")
            elif ob["layout"] is not None and ob["layout"] not in ent["outs"]:
                res.violation(
                    "correspondence-break",
                    "layout abstraction unsound: %s on layout %s returned layout %s, measured %s"
                    % (stage, lay_in, ob["layout"], ent["outs"]),
                    impl=ob["layout"], model=dict(table_entry=ent),
                    broken="C20 Sem.Sound (stage=%s, layout=%s)" % (stage, lay_in),
                    signature=dict(stream="pipeline", what="abstraction-out", stage=stage,
                                   layout=lay_in))

    for k, p in enumerate(chain):
        lay_in = classify(t)
        if "particle" not in t.columns and p not in ("link", "link_partial"):
            break
        ob = observe(p, t, par)
        if ob["status"] == "degenerate":
            res.stat("degenerate_stop")
            break
        judge(p, lay_in, ob, in_scope=(k >= 1))
        if ob["status"] != "ok":
            if k == 0:
                res.stat("first_stage_%s" % ob["status"])
            break
        t = ob["out"]
        prev = p
        steps += 1
        res.stat("producer_steps")
        res.stat("edge_%s>%s" % (lay_in, ob["layout"]))
        lay = ob["layout"]
        for s in STAGES:
            if s in PRODUCERS and k + 1 < len(chain) and s != chain[k + 1] and not ctx.thorough \
                    and (k + len(s)) % 2:
                continue                                          # quick tier: half of the extra producers
            o2 = observe(s, t, par)
            if o2["status"] == "degenerate":
                res.stat("degenerate_consumer")
                continue
            comparisons += 1
            res.stat("consumer_runs")
            judge(s, lay, o2, in_scope=True)
    res.nontrivial = steps >= 2 and comparisons >= 8
    res.sample = dict(stream="pipeline", chain=chain, init=inp["layout"], steps=steps,
                      comparisons=comparisons)
    return res


# ------------------------------------------------------------------------------------------
# data classes shared by the filterx and session streams

EXTRA_NAMES = ["frame_index", "foo", "k", "a", "index", "level_0", "particle_index"]

# Columns a trajectory table CARRIES besides the ones a stage reads.  The statement quantifies over
# all trajectory tables: the filters must be exact, and every stage give the same numbers, whatever
# else the table carries.  (i) columns written by other trackpy stages (locate / batch: ep, raw_mass,
# signal, ecc, size_x, size_y; cluster: cluster, cluster_size; proximity merged back: proximity;
# relate_frames merged back: dx, dy, dr, direction), (ii) user columns whose names CONTAIN or EXTEND
# the names of the columns the filters read ('size', 'particle', 'frame'), (iii) any of them with a
# non-numeric dtype.  No column is named 'z' (guess_pos_columns would read it as a third coordinate)
# and none 'x_b' / 'y_b' (relate_frames' join suffix).
CARRY_STAGE_NAMES = ["cluster", "cluster_size", "proximity", "ep", "size_x", "size_y", "raw_mass",
                     "signal", "ecc", "dx", "dr", "direction"]
CARRY_CLASH_NAMES = ["size_std", "sizes", "msize", "Size", "size_", "cluster_size",
                     "particle_old", "_old_particle", "particles", "particle_", "Particle",
                     "frame_orig", "old_frame", "frames", "frame_", "Frame",
                     0]                                          # a column label that is not a string
CARRY_NUMERIC = ["size_like", "int_small", "float", "nan_float", "int32", "label_like",
                 "label_const", "frame_like"]
CARRY_NONNUMERIC = ["str", "bool", "category", "datetime", "object_mixed", "timedelta"]


def gen_carry(rng, session):
    """[[name, kind, seed], ...]: 1-4 carried columns; names containing 'size' / 'particle' /
    'frame' mostly get values that LOOK like sizes / labels / frame numbers but are other numbers
    (reading them instead of, or together with, the real column changes the answer)"""
    out = []
    names = rng.sample(CARRY_STAGE_NAMES, rng.randint(0, 2)) + \
        rng.sample(CARRY_CLASH_NAMES, rng.randint(0, 2))
    if not names:
        names = [rng.choice(CARRY_STAGE_NAMES + CARRY_CLASH_NAMES)]
    for name in dict.fromkeys(names):
        low = str(name).lower()
        r = rng.random()
        if r < 0.2:
            kind = rng.choice(CARRY_NONNUMERIC)
        elif r < 0.75 and "size" in low:
            kind = rng.choice(["size_like", "size_like", "int_small", "int_small", "nan_float"])
        elif r < 0.75 and "particle" in low:
            kind = rng.choice(["label_like", "label_like", "label_const"])
        elif r < 0.75 and "frame" in low:
            kind = "frame_like"
        else:
            kind = rng.choice(CARRY_NUMERIC)
        out.append([name, kind, rng.randrange(1 << 30)])
    return out


def carry_values(kind, seed, frame, particle_codes):
    """values of one carried column (deterministic in (kind, seed) and the rows)"""
    import random
    P = pd()
    rng = random.Random("C20-carry-%d" % seed)
    n = len(frame)
    if kind == "size_like":                                      # dyadic, other scale than `size`
        return np.array([rng.randint(2, 160) / 4.0 for _ in range(n)])
    if kind == "int_small":                                      # as cluster_size
        return np.array([rng.choice([1, 1, 1, 2, 2, 3, 5, 12]) for _ in range(n)], dtype=np.int64)
    if kind == "float":
        return np.array([rng.randint(-400, 400) / 8.0 for _ in range(n)])
    if kind == "nan_float":
        return np.array([np.nan if rng.random() < 0.4 else rng.randint(0, 80) / 4.0
                         for _ in range(n)])
    if kind == "int32":
        return np.array([rng.randint(-5, 50) for _ in range(n)], dtype=np.int32)
    if kind == "label_like":                                     # ANOTHER partition of the rows
        k = rng.randint(2, 4)
        return np.array([(int(c) + int(f)) % k for c, f in zip(particle_codes, frame)],
                        dtype=np.int64)
    if kind == "label_const":
        return np.full(n, rng.choice([0, 7]), dtype=np.int64)
    if kind == "frame_like":                                     # other frame numbers
        a, b = rng.choice([(2, 1), (-1, 50), (1, 3), (0, 4)])
        return np.array([a * int(f) + b for f in frame], dtype=np.int64)
    if kind == "str":
        return P.Series(["s%d" % rng.randint(0, 5) for _ in range(n)], dtype=object).values
    if kind == "bool":
        return np.array([rng.random() < 0.5 for _ in range(n)], dtype=bool)
    if kind == "category":
        return P.Categorical([rng.choice(["a", "b", "c"]) for _ in range(n)],
                             categories=["a", "b", "c", "unused"])
    if kind == "datetime":
        return np.array(["2020-01-%02d" % rng.randint(1, 28) for _ in range(n)],
                        dtype="datetime64[ns]")
    if kind == "timedelta":
        return np.array([rng.randint(0, 1000) for _ in range(n)], dtype="timedelta64[ms]")
    if kind == "object_mixed":
        return P.Series([rng.choice([None, "u", 3, 2.5, (1, 2)]) for _ in range(n)],
                        dtype=object).values
    raise ValueError(kind)


def gen_mods(rng, rows, session):
    """data classes on top of gen_rows (as index lists / names, so that the input stays JSON):
    NaN / inf entries in `size` and `mass` (filterx also positions: the filters do not read them),
    integer / float32 `size`, float32 positions, object / int32 / float labels (filterx also
    categorical and string labels), negative and non-contiguous frame numbers, extra columns whose
    names clash with index level names, a non-empty `attrs` dict on the caller's table."""
    n = len(rows)
    parts = sorted({r["particle"] for r in rows})
    m = {}
    special = False
    if rng.random() < 0.5:
        nan = set()
        if rng.random() < 0.6:                                   # a trajectory without any measured size
            p = rng.choice(parts)
            nan |= {i for i in range(n) if rows[i]["particle"] == p}
        for p in parts:
            if rng.random() < 0.5:
                q = rng.choice([0.2, 0.5, 0.8])
                nan |= {i for i in range(n) if rows[i]["particle"] == p and rng.random() < q}
        if not nan:
            nan.add(rng.randrange(n))
        m["nan_size"] = sorted(nan)
        special = True
    if rng.random() < 0.12:
        k = rng.randint(1, 3)
        m["inf_size"] = [[rng.randrange(n), rng.choice([1, 1, -1])] for _ in range(k)]
        special = True
    if special:
        m["size_dtype"] = rng.choice(["float64", "float64", "float32"])
    else:
        m["size_dtype"] = rng.choice(["float64", "float64", "float32", "int64", "int32"])
    if rng.random() < 0.2:
        m["nan_mass"] = sorted({rng.randrange(n) for _ in range(rng.randint(1, 3))})
    if rng.random() < 0.1:
        m["inf_mass"] = [[rng.randrange(n), rng.choice([1, -1])]]
    if not session and rng.random() < 0.15:
        m["nan_pos"] = [[rng.randrange(n), rng.choice(["x", "y"])] for _ in range(rng.randint(1, 2))]
    if rng.random() < 0.15:
        # integer positions only where no stage reads them (filterx): rounding removes the generic
        # offsets that make linking optima unique (see gen_rows)
        m["pos_dtype"] = "float32" if session else rng.choice(["float32", "int64"])
    kinds = ["int64"] * 6 + ["object", "object", "int32", "float64"]
    if not session:
        # categorical / string labels: the filters are label-agnostic and handle them; compute_drift,
        # subtract_drift (Series.diff on the labels) and link_partial (writes integer ids into the
        # column) reject them on the plain default-indexed table as well, so they are a filter-only
        # class (reported, see the final report of wip-S2)
        kinds += ["category", "str", "negative"]                 # link_partial reads ids < 0 as 'unlabelled'
    m["particle_kind"] = rng.choice(kinds)
    if rng.random() < 0.3:
        m["frame_map"] = [rng.choice([1, 1, 2, 3]), rng.choice([-3, -20, -1, 1000, 0])]
    if rng.random() < 0.12:
        m["frame_dtype"] = rng.choice(["float64", "int32"])     # link coerces float frames to int64
    if rng.random() < 0.25:
        m["extra"] = rng.sample(EXTRA_NAMES, rng.randint(1, 2))
    if rng.random() < 0.2:
        m["attrs"] = {"source": "movie-%d.tif" % rng.randint(0, 9), "mpp": 0.5}
    if rng.random() < 0.6:
        m["carry"] = gen_carry(rng, session)
    if rng.random() < 0.25:
        m["col_order"] = rng.randrange(1 << 30)                  # the columns in another order
    return m


def add_clash(rng, mods, layout, variant):
    """with probability 0.3 an extra column named like the index (level) of the chosen layout -
    for a frame-named index the name pandas_sort renames that index to"""
    name = {"otherNamed": "frame_index" if variant % 2 == 0 else "foo", "frameIdx": "frame_index",
            "frameMI": "k", "particleMI": "k", "otherMI": "a",
            "particleIdx": "particle_index"}.get(layout)
    if name and rng.random() < 0.3:
        mods["extra"] = sorted(set(mods.get("extra", []) + [name]))
    return mods


def build_table(rows, mods, layout, variant):
    """the caller's table: rows + data classes `mods` + a row identity column `rid`, in `layout`"""
    P = pd()
    m = mods or {}
    df = make_df(rows)
    n = len(df)
    if m.get("frame_map"):
        a, b = m["frame_map"]
        df["frame"] = (a * df["frame"] + b).astype(np.int64)
    if m.get("frame_dtype"):
        df["frame"] = df["frame"].astype(m["frame_dtype"])
    sd = m.get("size_dtype", "float64")
    if sd in ("int64", "int32"):
        df["size"] = np.round(df["size"].values * 4).astype(sd)   # sizes k/4 -> the integer k
    size = df["size"].values.astype(np.float64) if sd.startswith("float") else None
    if size is not None:
        for i in m.get("nan_size", []):
            size[i] = np.nan
        for i, sg in m.get("inf_size", []):
            size[i] = np.inf if sg > 0 else -np.inf
        df["size"] = size.astype(sd)
    mass = df["mass"].values.astype(np.float64)
    for i in m.get("nan_mass", []):
        mass[i] = np.nan
    for i, sg in m.get("inf_mass", []):
        mass[i] = np.inf if sg > 0 else -np.inf
    df["mass"] = mass
    for i, c in m.get("nan_pos", []):
        df.loc[i, c] = np.nan
    if m.get("pos_dtype"):
        for c in ("x", "y"):
            v = df[c].values
            if m["pos_dtype"].startswith("int"):
                v = np.round(np.where(np.isnan(v), 0.0, v))
            df[c] = v.astype(m["pos_dtype"])
    pk = m.get("particle_kind", "int64")
    if pk == "object":
        df["particle"] = P.Series([int(v) for v in df["particle"].values], dtype=object)
    elif pk == "str":
        df["particle"] = P.Series(["p%d" % v for v in df["particle"].values])
    elif pk == "category":
        df["particle"] = df["particle"].astype("category")
    elif pk == "negative":
        df["particle"] = -df["particle"] - 1
    elif pk != "int64":
        df["particle"] = df["particle"].astype(pk)
    for j, name in enumerate(m.get("extra", [])):
        df[name] = 0.5 * np.arange(n) + j
    if m.get("carry"):
        codes = P.factorize(df["particle"])[0]
        for name, kind, seed in m["carry"]:
            if name not in df.columns:
                df[name] = carry_values(kind, seed, df["frame"].tolist(), codes)
    df["rid"] = np.arange(n)
    if m.get("col_order") is not None:
        import random
        cols = list(df.columns)
        random.Random("C20-cols-%d" % m["col_order"]).shuffle(cols)
        df = df[cols].copy()
    t = apply_layout(df, layout, variant)
    if m.get("attrs"):
        t.attrs.update(m["attrs"])
    return t


def mods_stats(res, t, mods):
    m = mods or {}
    if m.get("nan_size"):
        res.stat("nan_size_tables")
    if m.get("inf_size"):
        res.stat("inf_size_tables")
    if m.get("nan_mass") or m.get("inf_mass"):
        res.stat("nonfinite_mass_tables")
    if m.get("nan_pos"):
        res.stat("nan_position_tables")
    res.stat("size_dtype_%s" % m.get("size_dtype", "float64"))
    res.stat("particle_kind_%s" % m.get("particle_kind", "int64"))
    if m.get("frame_dtype"):
        res.stat("frame_dtype_%s" % m["frame_dtype"])
    if m.get("pos_dtype"):
        res.stat("%s_position_tables" % m["pos_dtype"])
    fr = np.unique(t["frame"].values)
    if len(fr) and fr[0] < 0:
        res.stat("negative_frame_tables")
    if len(fr) > 1 and np.any(np.diff(fr) > 1):
        res.stat("noncontiguous_frame_tables")
    if m.get("extra"):
        res.stat("extra_column_tables")
        names = [x for x in t.index.names if x is not None]
        if any(x in m["extra"] for x in names):
            res.stat("extra_column_clashes_with_index_level")
    if m.get("attrs"):
        res.stat("tables_with_attrs")
    if m.get("col_order") is not None:
        res.stat("permuted_column_order_tables")
    if m.get("carry"):
        res.stat("carried_column_tables")
        for name, kind, _ in m["carry"]:
            res.stat("carried_kind_%s" % kind)
            low = str(name).lower()
            for key in ("size", "particle", "frame"):
                if key in low:
                    res.stat("carried_name_contains_%s" % key)
            if name in CARRY_STAGE_NAMES:
                res.stat("carried_stage_column_%s" % name)
        if any(k in CARRY_NONNUMERIC for _, k, _ in m["carry"]):
            res.stat("carried_nonnumeric_tables")


def fresh_table(t):
    """the same DATA (rows, row order, columns, dtypes) in a freshly BUILT plain default-indexed
    DataFrame: built from the column arrays, so nothing of the OBJECT t (index, attrs, flags, cached
    state) is inherited - `t.reset_index(drop=True)` / `t.copy()` propagate `attrs`."""
    P = pd()
    cols = list(t.columns)
    if len(set(cols)) != len(cols):
        raise RuntimeError("duplicate column names: %s" % cols)
    data = {}
    for j, c in enumerate(cols):
        col = t.iloc[:, j]
        if isinstance(col.dtype, np.dtype):
            # dtype given explicitly: pandas 3 infers `str` for an object array that happens to
            # hold only strings (an object column of which a filter kept the string rows)
            data[c] = P.Series(np.array(col.to_numpy(), copy=True), dtype=col.dtype)
        else:
            data[c] = col.array.copy()
    f = P.DataFrame(data, columns=cols)
    if f.attrs or not isinstance(f.index, P.RangeIndex):
        raise RuntimeError("fresh table is not plain")
    if [str(d) for d in f.dtypes] != [str(d) for d in t.dtypes]:
        raise RuntimeError("fresh table changed dtypes: %s -> %s" % (list(t.dtypes), list(f.dtypes)))
    return f


# consumer stages that RETURN a table with one row per input row: the caller carries the result on
# in the trajectory table (tp.cluster returns that table itself: "a copy of f with added 'cluster'
# and 'cluster_size' columns"; proximity / relate_frames results are merged back by the caller, as
# in the docstring example of tp.proximity).  Session ops -> the trackpy stage that is run
TABLE_CONSUMERS = {"cluster": "cluster", "proximity_merged": "proximity",
                   "relate_merged": "relate_frames"}


def merge_back(op, src, out):
    """the trajectory table the caller continues with after the table-returning consumer `op`
    returned `out` for the table `src` (None: cannot be merged row by row)"""
    if op == "cluster":
        return out if len(out) == len(src) else None
    if len(src) == 0:
        return None
    m = src.copy()
    if op == "proximity_merged":
        if len(out) != len(src):
            return None
        m["proximity"] = out["proximity"].values                # row order follows the input rows
        return m
    if op == "relate_merged":
        if not out.index.is_unique or len(out) == 0:
            return None                                          # a label twice in one frame
        lab = src["particle"]
        try:
            for c in ("dx", "dy", "dr", "direction"):
                m[c] = out[c].reindex(lab.values).values        # NaN for trajectories not in frame1
        except Exception:
            return None
        return m
    raise ValueError(op)


def via_table(t, via, separation):
    """filterx: the table after it went through a table-returning consumer (None: the consumer
    rejects this data / cannot be merged)"""
    par = dict(default_params())
    par["separation"] = separation
    try:
        out = run_stage(TABLE_CONSUMERS[via], t, par, copy=True)
        return merge_back(via, t, out)
    except Exception:
        return None


def snapshot(t):
    import copy
    return dict(values=fresh_table(t), index=t.index.copy(deep=True), names=list(t.index.names),
                columns=list(t.columns), dtypes=[str(d) for d in t.dtypes],
                attrs=copy.deepcopy(dict(t.attrs)))


def modified_aspect(snap, t):
    """which aspect of the caller's table differs from the snapshot taken before (None = nothing)"""
    if list(t.columns) != snap["columns"]:
        return "columns", "%s -> %s" % (snap["columns"], list(t.columns))
    if [str(d) for d in t.dtypes] != snap["dtypes"]:
        return "dtypes", "%s -> %s" % (snap["dtypes"], [str(d) for d in t.dtypes])
    if list(t.index.names) != snap["names"]:
        return "index-names", "%s -> %s" % (snap["names"], list(t.index.names))
    if type(t.index) is not type(snap["index"]) or not t.index.equals(snap["index"]):
        return "index", "index values changed"
    if not fresh_table(t).equals(snap["values"]):
        return "values", "column values changed"
    try:
        same = dict(t.attrs) == snap["attrs"]
    except Exception:
        same = False
    if not same:
        return "attrs", "attrs %r -> keys %s" % (snap["attrs"], sorted(map(str, t.attrs)))
    return None


def traj_groups(S):
    """{label: [row positions]} of the table S (labels as python scalars, order of appearance)"""
    lab = S["particle"].tolist()
    g = {}
    for i, l in enumerate(lab):
        g.setdefault(l, []).append(i)
    return lab, g


def mean_reading(vals):
    """'mean size' of one trajectory from the statement, in exact arithmetic.
    returns (skip, prop): skip = mean over the measured (non-NaN) sizes, as pandas computes it;
    prop = the mean with NaN propagated.  Each is a Fraction, '+inf', '-inf' or None (no mean /
    NaN mean, which is not below any cut)."""
    meas = [v for v in vals if v == v]
    if not meas:
        return None, None
    pinf = any(v == np.inf for v in meas)
    ninf = any(v == -np.inf for v in meas)
    if pinf and ninf:
        skip = None
    elif pinf:
        skip = "+inf"
    elif ninf:
        skip = "-inf"
    else:
        skip = sum(Fraction(float(v)) for v in meas) / len(meas)
    return skip, (skip if len(meas) == len(vals) else None)


def below(mean, cut):
    if mean is None or cut is None or mean == "+inf":
        return False
    if mean == "-inf":
        return True
    return mean < cut


def filter_expect(which, S, thr=None, cut=None):
    """THE STATEMENT on the table S (a fresh snapshot of what the filter is handed):
    stubs: rows of the trajectories with at least thr observations; clusters: rows of the
    trajectories whose mean size is below the cut - both readings of 'mean size' when sizes are NaN.
    returns dict(accept=[sorted row positions, ...], margin, nan_groups, allnan_groups)"""
    lab, g = traj_groups(S)
    if which == "stubs":
        keep = sorted(i for l, idx in g.items() if len(idx) >= thr for i in idx)
        return dict(accept=[keep], margin=None, groups=len(g), kept_groups=[
            sum(1 for idx in g.values() if len(idx) >= thr)])
    size = S["size"].to_numpy(dtype=np.float64)
    a, b = [], []
    ka = kb = 0
    margin = None
    tie = False
    nan_groups = allnan = 0
    for l, idx in g.items():
        vals = [size[i] for i in idx]
        skip, prop = mean_reading(vals)
        if any(v != v for v in vals):
            nan_groups += 1
            if all(v != v for v in vals):
                allnan += 1
        if isinstance(skip, Fraction) and cut is not None:
            d = abs(float(skip - cut))
            tie = tie or skip == cut
            if skip != cut:
                margin = d if margin is None else min(margin, d)
        if below(skip, cut):
            a += idx
            ka += 1
        if below(prop, cut):
            b += idx
            kb += 1
    acc = [sorted(a)]
    if sorted(b) != sorted(a):
        acc.append(sorted(b))
    return dict(accept=acc, margin=margin, tie=tie, groups=len(g), kept_groups=[ka, kb],
                nan_groups=nan_groups, allnan_groups=allnan)


def resolve_cut(S, par):
    """the cut of a filter_clusters call: explicit threshold, a threshold placed at run time on
    the 1/16 grid next to the mean size of a trajectory (cut_sel=[k, off]: exact ties and
    one-step margins), or the documented quantile of the measured sizes of all rows.
    returns (kwargs for filter_clusters, exact cut as Fraction / None, ok)"""
    size = S["size"].to_numpy(dtype=np.float64)
    finite = [Fraction(float(v)) for v in size if np.isfinite(v)]
    if par.get("cut_sel") is not None:
        lab, g = traj_groups(S)
        means = sorted(m for m in (mean_reading([size[i] for i in idx])[0] for idx in g.values())
                       if isinstance(m, Fraction))
        if not means:
            c = Fraction(3)
        else:
            k, off = par["cut_sel"]
            c = Fraction(int(means[k % len(means)] * 16) + off, 16)
        return dict(threshold=float(c)), c, True
    if par.get("cut") is not None:
        c = Fraction(float(par["cut"]))
        return dict(threshold=float(par["cut"])), c, True
    q = par.get("quantile")
    qq = 0.8 if q is None else q
    kwargs = {} if q is None else dict(quantile=q)
    if len(finite) != int(np.sum(size == size)):
        return kwargs, None, False                                 # inf sizes: quantile not used
    if not finite:
        return kwargs, None, True                                  # no measured size: NaN cut
    return kwargs, exact_quantile(finite, qq), True


def table_equal_rows(out, S, pos):
    """values unchanged: row j of `out` must be row pos[j] of S in every column, dtypes included.
    returns None or a message"""
    exp = S.iloc[pos].reset_index(drop=True)
    got = fresh_table(out)
    if list(got.columns) != list(exp.columns):
        return "columns changed: %s" % list(got.columns)
    if got.equals(exp):
        return None
    for c in exp.columns:
        if str(got[c].dtype) != str(exp[c].dtype):
            return "dtype of column %s changed: %s -> %s" % (c, exp[c].dtype, got[c].dtype)
        a, b = got[c].tolist(), exp[c].tolist()
        for j in range(len(a)):
            if not (a[j] == b[j] or (a[j] != a[j] and b[j] != b[j])):
                return "value changed in row %s column %s: %r -> %r" % (pos[j], c, b[j], a[j])
    return "values changed"


def judge_filter(which, S, out, thr=None, cut=None):
    """direct oracle of a filter call on S (fresh snapshot with a `rid` column) returning `out`.
    returns (bad message or None, expectation dict, reading index matched or None)"""
    exp = filter_expect(which, S, thr=thr, cut=cut)
    if "rid" not in out.columns:
        return "columns changed: %s" % list(out.columns), exp, None
    where = {int(r): i for i, r in enumerate(S["rid"].tolist())}
    try:
        pos = [where[int(r)] for r in out["rid"].tolist()]
    except (KeyError, ValueError):
        return "returned rows that are not rows of the table", exp, None
    reading = None
    for k, acc in enumerate(exp["accept"]):
        if sorted(pos) == acc:
            reading = k
            break
    if reading is None:
        lab = S["particle"].tolist()
        got_l = sorted({str(lab[i]) for i in pos})
        want_l = [sorted({str(lab[i]) for i in acc}) for acc in exp["accept"]]
        return ("row set differs: returned %d rows of trajectories %s; the statement gives %s"
                % (len(pos), got_l, " or ".join("%d rows of %s" % (len(a), w)
                                                for a, w in zip(exp["accept"], want_l)))), exp, None
    return table_equal_rows(out, S, pos), exp, reading


# ------------------------------------------------------------------------------------------
# filterx stream: the filters on tables of every data class

def gen_filterx(rng, i):
    rows = gen_rows(rng, npart=rng.randint(1, 7), nframes=rng.randint(1, 12),
                    dup=rng.random() < 0.15, close=rng.random() < 0.4)
    inp = dict(stream="filterx", rows=rows, layout=rng.choice(LAYOUTS), variant=rng.randint(0, 1),
               mods=gen_mods(rng, rows, session=False))
    add_clash(rng, inp["mods"], inp["layout"], inp["variant"])
    if rng.random() < 0.3:
        # the table went through a consumer stage that returns a table before it reaches the filter
        inp["via"] = [rng.choice(["cluster", "cluster", "proximity_merged", "relate_merged"]),
                      rng.choice([1.0, 2.0, 5.0, 9.0, 14.0])]
    counts = {}
    for r in rows:
        counts[r["particle"]] = counts.get(r["particle"], 0) + 1
    if i % 3 == 0:
        inp["which"] = "stubs"
        c = rng.choice(sorted(counts.values()))
        inp["par"] = dict(stub_thr=rng.choice([c, c, c + 1, c - 1, 0, 1, 2.5, 100]))
    else:
        inp["which"] = "clusters"
        r = rng.random()
        if r < 0.25:
            inp["par"] = dict(quantile=rng.choice([0.0, 0.25, 0.5, 0.75, 0.875, 1.0, None]))
        elif r < 0.35:
            inp["par"] = dict(cut=rng.choice([0.0, 0.5, 1.0, 3.0, 100.0, -1.0]))
        else:
            inp["par"] = dict(cut_sel=[rng.randint(0, 6), rng.choice([0, 0, 1, -1, 2, -8, 8])])
    return inp


def model_filter(ctx, which, S, thr, cut):
    """the Lean model on the same table: labels renamed to integers by first appearance;
    clusters: on the rows with a measured size (pandas' mean skips NaN), None if sizes are inf or
    the threshold is not an integer.  returns the kept row positions of S (in storage order)"""
    lab, g = traj_groups(S)
    ren = {l: k for k, l in enumerate(g)}
    size = S["size"].to_numpy(dtype=np.float64)
    frames = S["frame"].tolist()
    if which == "stubs":
        if thr != int(thr):
            return None
        body = " ; ".join("%d,%d,0" % (frames[i], ren[lab[i]]) for i in range(len(lab)))
        m = common.kv(ctx.ask("FSTUBS %d | %s" % (int(thr), body)))
        sub = list(range(len(lab)))
    else:
        if cut is None or np.any(np.isinf(size)):
            return None
        sub = [i for i in range(len(lab)) if size[i] == size[i]]
        if not sub:
            return []
        body = " ; ".join("%d,%d,%s" % (frames[i], ren[lab[i]], common.rat_str(Fraction(float(size[i]))))
                          for i in sub)
        m = common.kv(ctx.ask("FCLUST %s | %s" % (common.rat_str(cut), body)))
    if "keep" not in m:
        raise RuntimeError("driver: %r" % m)
    keep = [int(x) for x in m["keep"].split(",")] if m["keep"] not in ("", True) else []
    kept_labels = {lab[sub[j]] for j in keep}
    return [i for i in range(len(lab)) if lab[i] in kept_labels]


def run_filterx_case(ctx, inp):
    res = Result()
    which = inp["which"]
    par = inp["par"]
    t = build_table(inp["rows"], inp.get("mods"), inp["layout"], inp.get("variant", 0))
    mods_stats(res, t, inp.get("mods"))
    res.stat("filterx_%s" % which)
    if inp.get("via"):
        tv = via_table(t, inp["via"][0], inp["via"][1])
        if tv is None:
            res.stat("filterx_via_not_applicable")               # e.g. NaN positions, one frame
        else:
            t = tv
            res.stat("filterx_via_%s" % inp["via"][0])
            if "cluster_size" in t.columns and len(set(t["cluster_size"].tolist())) > 1:
                res.stat("filterx_cluster_size_varies")
    snap = snapshot(t)
    S = snap["values"]
    thr = cut = None
    if which == "stubs":
        thr = par["stub_thr"]
        call = lambda tab: tp().filter_stubs(tab, thr)
    else:
        kwargs, cut, ok = resolve_cut(S, par)
        if not ok:
            res.stat("filterx_quantile_with_inf_skipped")
            return res
        call = lambda tab: tp().filter_clusters(tab, **kwargs)
    try:
        out = call(t)
        out_fresh = call(fresh_table(t))
    except Exception as e:
        res.violation("property-violation", "filter_%s raised %r" % (which, e), impl=repr(e),
                      signature=dict(stream="filterx", which=which, error=type(e).__name__))
        return res
    res.stat("fresh_rebuild_comparisons")
    bad, exp, reading = judge_filter(which, S, out, thr=thr, cut=cut)
    if which == "clusters" and exp["margin"] is not None and exp["margin"] < 1e-9:
        res.borderline = True
        return res
    if exp.get("nan_groups"):
        res.stat("filterx_tables_with_nan_trajectory")
        if exp["allnan_groups"]:
            res.stat("filterx_tables_with_unmeasured_trajectory")
        if len(exp["accept"]) > 1:
            res.stat("filterx_nan_readings_differ")
    if exp.get("tie"):
        res.stat("filter_exact_tie")
    if bad is None:
        mod = modified_aspect(snap, t)
        if mod is not None:
            res.violation("property-violation", "filter_%s modified the caller's table (%s: %s)"
                          % (which, mod[0], mod[1]), impl=mod[1],
                          signature=dict(stream="filterx", which=which,
                                         what="caller-table-modified", aspect=mod[0]))
    if bad is None:
        a, b = fresh_table(out), fresh_table(out_fresh)
        if not a.equals(b):
            bad = ("differs from the same data in a freshly built plain table: %d rows vs %d rows"
                   % (len(a), len(b)))
    if bad:
        res.violation("property-violation", "filter_%s(%s): %s" % (which, par, bad),
                      impl=dict(rids=[int(x) for x in out["rid"].tolist()] if "rid" in out else None,
                                cut=str(cut), thr=thr),
                      model=dict(statement=[len(a) for a in exp["accept"]]),
                      signature=dict(stream="filterx", which=which, what=bad.split(":")[0]))
        return res
    if reading == 1:
        res.stat("filterx_matched_nan_propagating_reading")
    mk = model_filter(ctx, which, S, thr, cut)
    if mk is None:
        res.stat("filterx_model_not_applicable")
    else:
        where = {int(r): i for i, r in enumerate(S["rid"].tolist())}
        got = [where[int(r)] for r in out["rid"].tolist()]
        if got != mk and not (reading == 1 and len(exp["accept"]) > 1):
            res.violation("correspondence-break",
                          "filter_%s agrees with the statement but not with the model (rows/order): "
                          "impl %s model %s" % (which, got, mk), impl=got, model=mk,
                          broken="Filter.filterStubs / Filter.filterClusters (gfilter)",
                          signature=dict(stream="filterx", which=which, what="model"))
    lay = classify(out)
    if lay != "frameIdx" or not np.array_equal(out.index.values, out["frame"].values):
        res.violation("correspondence-break", "filter output is not indexed by its frame column: %s"
                      % lay, impl=lay, model="set_index('frame', drop=False)",
                      broken="Model/Filter.lean header (index rebuilt from frame)",
                      signature=dict(stream="filterx", which=which, what="index"))
    kept = exp["kept_groups"][reading or 0]
    res.nontrivial = 0 < kept < exp["groups"]
    res.sample = dict(stream="filterx", which=which, rows=len(S), kept=len(out),
                      mods=sorted((inp.get("mods") or {}).keys()))
    return res


# ------------------------------------------------------------------------------------------
# session stream: programs that are DAGs over table OBJECTS

def step_par(rng, op):
    if op == "link":
        return dict(search_range=rng.choice([1.0, 1.5, 2.0, 3.0, 5.0]), memory=rng.choice([0, 0, 1, 3]))
    if op == "link_partial":
        a = rng.randint(0, 3)
        return dict(search_range=rng.choice([1.0, 1.5, 3.0, 5.0]), link_range=[a, a + rng.randint(1, 5)])
    if op == "filter_stubs":
        return dict(stub_thr=rng.choice([1, 2, 2, 3, 3, 4, 5, 6, 8]))
    if op == "filter_clusters":
        r = rng.random()
        if r < 0.6:
            return dict(cut_sel=[rng.randint(0, 6), rng.choice([0, 0, 1, -1, 2, 8])])
        if r < 0.8:
            return dict(cut=rng.choice([3.5, 5.0, 100.0]))
        return dict(quantile=rng.choice([0.5, 0.8, 1.0, None]))
    if op == "cluster":
        return dict(separation=rng.choice([2.0, 5.0, 9.0]))
    return {}


TABLE_OPS = PRODUCERS + list(TABLE_CONSUMERS)                   # session ops whose result is a register


def gen_session(rng, i, thorough):
    """a program over registers: register 0 is the caller's table, register j+1 the table
    returned by step j (producers only).  Families (in rotation):
      revisit : A(T); U = B(T) or B(subtract_drift(T)); A(U)   - A any stage, B any producer: a
                stage meets the result of a producer that was handed an object the stage had seen
      twice   : A(T, p1); A(T, p2); A(T, p1) on ONE object, then stages on each result
      feedback: relink / patch an already linked table with other ranges, filters after each
      random  : random DAG, sources biased to registers that were already consumed"""
    rows = gen_rows(rng, npart=rng.randint(2, 6), nframes=rng.randint(4, 12),
                    close=rng.random() < 0.3, dup=rng.random() < 0.1, jitter=True)
    mods = gen_mods(rng, rows, session=True)
    fam = ["revisit", "twice", "feedback", "random", "carried"][i % 5]
    k = i // 5
    steps = []

    def add(op, src, par=None):
        steps.append(dict(op=op, src=src, par=step_par(rng, op) if par is None else par))
        return len(steps)                                         # register of the result

    if fam == "revisit":
        A = STAGES[k % len(STAGES)]
        B = PRODUCERS[(k // len(STAGES)) % len(PRODUCERS)]
        pa = step_par(rng, A)
        add(A, 0, pa)
        src = 0
        if rng.random() < 0.3:
            src = add("subtract_drift", 0)
        u = add(B, src)
        add(A, u, pa if rng.random() < 0.7 else None)
        if A in PRODUCERS and rng.random() < 0.5:
            add(rng.choice(["filter_stubs", "filter_clusters"]), len(steps))
    elif fam == "twice":
        A = PRODUCERS[k % len(PRODUCERS)]
        p1 = step_par(rng, A)
        r1 = add(A, 0, p1)
        r2 = add(A, 0)
        add(A, 0, p1)
        for r in (r1, r2):
            add(rng.choice(STAGES), r)
    elif fam == "feedback":
        u = add("link", 0, dict(search_range=rng.choice([3.0, 5.0]), memory=rng.choice([0, 1, 3])))
        f = add(rng.choice(["filter_stubs", "filter_clusters"]), u)
        v = add("link", u, dict(search_range=rng.choice([1.0, 1.5, 2.0]), memory=rng.choice([0, 1])))
        add("filter_stubs", v)
        w = add("link_partial", rng.choice([u, v]))
        add(rng.choice(["filter_stubs", "filter_clusters"]), w)
        add(rng.choice(["link", "link_partial"]), f)
        add("filter_stubs", len(steps))
    elif fam == "carried":
        # a consumer stage that RETURNS a table (cluster; proximity / relate_frames merged back by
        # the caller) in the middle of the pipeline: its columns are carried through producers into
        # the filters, which must still be exact in terms of `size` / `particle` / `frame` alone
        src = 0
        if rng.random() < 0.5:
            src = add(rng.choice(["link", "subtract_drift", "filter_stubs", "link_partial"]), 0)
        c = add(rng.choice(["cluster", "cluster", "cluster", "proximity_merged", "relate_merged"]), src)
        add("filter_clusters", c)
        cur = c
        for _ in range(rng.randint(0, 2)):
            cur = add(rng.choice(PRODUCERS + ["cluster"]), cur)
        add("filter_clusters", cur)
        add("filter_stubs", cur)
        add(rng.choice(STAGES), cur)
    nmax = (10 if thorough else 7) if fam == "random" else len(steps) + rng.randint(0, 2)
    used = set(s["src"] for s in steps)
    while len(steps) < nmax:
        regs = [0] + [j + 1 for j, s in enumerate(steps) if s["op"] in TABLE_OPS]
        w = [(3 if r in used else 1) + (2 if r == regs[-1] else 0) for r in regs]
        src = rng.choices(regs, weights=w)[0]
        op = rng.choice(PRODUCERS * 3 + ["filter_stubs"] * 3 + CONSUMERS + list(TABLE_CONSUMERS))
        add(op, src)
        used.add(src)
    inp = dict(stream="session", family=fam, rows=rows, mods=mods,
               layout=rng.choice(INIT_LAYOUTS), variant=rng.randint(0, 1), steps=steps)
    add_clash(rng, mods, inp["layout"], inp["variant"])
    return inp


def program_text(steps, upto):
    out = []
    for j, s in enumerate(steps[:upto + 1]):
        args = ",".join("%s=%s" % kv for kv in sorted(s["par"].items()))
        out.append("r%d=%s(r%d%s)" % (j + 1, s["op"], s["src"], "," + args if args else ""))
    return "; ".join(out)


def session_link_tie(stage, src, par, out, out_fresh):
    """as link_tie_recheck, against freshly built tables"""
    drop = lambda d: d.drop(columns=["particle"])
    if not same_numbers(canon_traj(drop(out)), canon_traj(drop(out_fresh))):
        return False
    a, b = [canon_partition(out)], [canon_partition(out_fresh)]
    for _ in range(3):
        try:
            a.append(canon_partition(run_stage(stage, src, par, copy=False)))
            b.append(canon_partition(run_stage(stage, fresh_table(src), par, copy=False)))
        except Exception:
            return False
    return any(same_numbers(x, y) for x in a for y in b)


def run_session_case(ctx, inp):
    res = Result()
    steps = inp["steps"]
    t0 = build_table(inp["rows"], inp.get("mods"), inp["layout"], inp.get("variant", 0))
    mods_stats(res, t0, inp.get("mods"))
    res.stat("session_cases")
    res.stat("session_family_%s" % inp.get("family", "corpus"))
    regs = {0: t0}
    snaps = {0: snapshot(t0)}
    origin = {0: None}                                            # register -> op that returned it
    uses = {}
    seen_by = {}                                                  # register -> stages that saw it
    ran = compared = oracle_calls = 0
    violated = set()

    def viol(j, what, msg, stage, **extra):
        key = (what, stage, extra.get("aspect"))
        if key in violated:
            return
        violated.add(key)
        sig = dict(stream="session", stage=stage, what=what)
        sig.update({k: v for k, v in extra.items() if k in ("aspect", "error")})
        res.violation("property-violation", "session [%s]: %s" % (program_text(steps, j), msg),
                      impl=dict(step=j + 1, **extra), model=None, signature=sig)

    for j, st in enumerate(steps):
        opname, src_id = st["op"], st["src"]
        op = TABLE_CONSUMERS.get(opname, opname)                  # the trackpy stage that is run
        src = regs.get(src_id)
        if src is None or len(src) == 0:
            res.stat("session_step_skipped_no_source")
            continue
        # the statement's second sentence is about tables RETURNED BY A PRODUCER; a table that comes
        # out of cluster / a merge (or the initial one) is in scope for the filters only
        produced = origin.get(src_id) in PRODUCERS
        if origin.get(src_id) in TABLE_CONSUMERS:
            res.stat("session_steps_on_%s_table" % origin[src_id])
        par = dict(default_params())
        par.update(st["par"])
        S = snaps[src_id]["values"]
        cut = None
        oracle_ok = True
        if op == "filter_clusters":
            kwargs, cut, oracle_ok = resolve_cut(S, st["par"])
            par["cut"] = kwargs.get("threshold")
            par["quantile"] = kwargs.get("quantile", 0.8)
        uses[src_id] = uses.get(src_id, 0) + 1
        if uses[src_id] > 1:
            res.stat("session_shared_table_uses")
        if seen_by.get(src_id) and op in seen_by[src_id]:
            res.stat("session_same_stage_again_on_object")
        seen_by.setdefault(src_id, set()).add(op)
        fresh = fresh_table(src)
        try:
            r_fresh = ("ok", run_stage(op, fresh, par, copy=False))
        except Exception as e:
            r_fresh = ("err", type(e).__name__, str(e)[:160])
        try:
            r_obj = ("ok", run_stage(op, src, par, copy=False))
        except Exception as e:
            r_obj = ("err", type(e).__name__, str(e)[:160])
        ran += 1
        res.stat("session_steps")
        res.stat("session_step_%s" % opname)
        # (o) no stage may modify a table of the caller (any live register), attrs included
        for rid_, sn in snaps.items():
            mod = modified_aspect(sn, regs[rid_])
            if mod is not None:
                viol(j, "caller-table-modified",
                     "%s modified the caller's table r%d (%s: %s)" % (op, rid_, mod[0], mod[1]),
                     op, aspect=mod[0])
                snaps[rid_] = snapshot(regs[rid_])
        if r_fresh[0] == "err":
            res.stat("session_degenerate_step")
            if r_obj[0] == "ok":
                res.stat("session_plain_rejects_object_accepted")
            if r_obj[0] == "ok" and op in PRODUCERS:
                regs[j + 1] = r_obj[1]
                snaps[j + 1] = snapshot(r_obj[1])
                origin[j + 1] = op
            continue
        if r_obj[0] == "err":
            res.stat("session_rejects")
            if produced or op in ("filter_stubs", "filter_clusters"):
                viol(j, "rejected", "%s rejects r%d (%s: %s) but accepts the same data in a freshly "
                     "built plain table" % (op, src_id, r_obj[1], r_obj[2]), op, error=r_obj[1])
            else:
                res.stat("session_initial_table_rejected")
            continue
        out, outf = r_obj[1], r_fresh[1]
        # (i) the statement's direct oracle
        if op in ("filter_stubs", "filter_clusters"):
            which = "stubs" if op == "filter_stubs" else "clusters"
            if oracle_ok:
                bad, exp, reading = judge_filter(which, S, out, thr=par["stub_thr"], cut=cut)
                if which == "clusters" and exp["margin"] is not None and exp["margin"] < 1e-9:
                    res.stat("session_borderline_cut")
                else:
                    oracle_calls += 1
                    res.stat("session_direct_oracle_checks")
                    if exp.get("nan_groups"):
                        res.stat("session_filter_clusters_on_nan_sizes")
                    other = [c for c in S.columns if c != "size" and "size" in str(c).lower()]
                    if which == "clusters" and other:
                        res.stat("session_filter_clusters_with_other_size_named_column")
                        if "cluster_size" in other and len(set(S["cluster_size"].tolist())) > 1:
                            res.stat("session_filter_clusters_cluster_size_varies")
                    if bad:
                        viol(j, bad.split(":")[0], "%s on r%d: %s" % (op, src_id, bad), op)
        # (ii) the same stage on the same data in a freshly built plain table
        compared += 1
        res.stat("fresh_rebuild_comparisons")
        if op in ("filter_stubs", "filter_clusters"):
            same = fresh_table(out).equals(fresh_table(outf))
        else:
            same = same_numbers(canon_out(op, out), canon_out(op, outf))
            if not same and op in ("link", "link_partial") and \
                    session_link_tie(op, src, par, out, outf):
                same = True
                res.stat("link_tie_nondeterministic")
        if not same:
            res.stat("session_differs")
            if produced or op in ("filter_stubs", "filter_clusters"):
                viol(j, "differs-from-fresh", "%s on r%d gives other numbers than on the same data "
                     "in a freshly built plain default-indexed table (%d vs %d rows)"
                     % (op, src_id, len(out), len(outf)), op)
            else:
                res.stat("session_initial_table_differs")
        if op in PRODUCERS:
            regs[j + 1] = out
            snaps[j + 1] = snapshot(out)
            origin[j + 1] = op
            res.stat("session_layout_%s" % classify(out))
        elif opname in TABLE_CONSUMERS and same:
            try:
                merged = merge_back(opname, src, out)
            except Exception:
                merged = None
            if merged is None or "rid" not in merged.columns:
                res.stat("session_merge_not_applicable")
            else:
                regs[j + 1] = merged
                snaps[j + 1] = snapshot(merged)
                origin[j + 1] = opname
                res.stat("session_table_from_%s" % opname)
    shared = sum(1 for v in uses.values() if v > 1)
    res.stat("session_shared_tables", shared)
    res.nontrivial = ran >= 3 and shared >= 1 and compared >= 3
    res.sample = dict(stream="session", family=inp.get("family"), steps=ran, shared_tables=shared,
                      oracle_checks=oracle_calls, program=program_text(steps, len(steps) - 1)[:300])
    return res


def run_case(ctx, inp):
    st = inp.get("stream")
    if st == "table":
        return run_table_case(ctx, inp)
    if st == "filter":
        return run_filter_case(ctx, inp)
    if st == "pipeline":
        return run_pipeline_case(ctx, inp)
    if st == "filterx":
        return run_filterx_case(ctx, inp)
    if st == "session":
        return run_session_case(ctx, inp)
    raise ValueError("unknown stream %r" % st)
