"""C20 - trajectory filters are exact; every stage accepts the previous stage's table.

Streams
  table    : ONE case.  Measures the stage x layout table from the live implementation (every
             stage run on representative tables of every index-layout class, compared with the same
             data in a plain default-indexed table), writes it to a standalone Lean file under
             lean/.lake/generated/ and lets the kernel re-check
             `tableClosedExcept liveTable liveInit liveExcl = true` by `decide`, instantiating the
             generic theorem `closed_except_of_table` (Props/C20).  A rejecting / numbers-changing
             entry that is reachable is turned into the concrete pipeline (producer chain ->
             consumer), run on the real code and reported as property-violation.
  filter   : random tables through the real filter_stubs / filter_clusters; function-mode
             correspondence with the Lean model (driver ops FSTUBS / FCLUST) and an independent
             Python oracle written from the statement (exact row set, order, values unchanged).
  pipeline : soundness attack on the layout abstraction: random producer pipelines of depth 1-4
             (thorough: up to 6, and all pipelines up to depth 3) on random tables in random
             layouts; after every prefix every consumer is run on the returned table and on the
             same data in a plain table; acceptance, numbers and the produced layout class are
             compared with each other and with the measured table.
"""
import itertools
import json
import os
import subprocess
import tempfile
from fractions import Fraction

import numpy as np

from . import common
from .common import Result

PROP = "C20"
RULE = ("table stream: 1 case = 12 stages x 12 layout classes x 4 representative tables measured on "
        "the live code and re-checked by the Lean kernel; filter stream: tables of 1-7 trajectories "
        "x 1-12 frames with gaps, duplicate labels per frame, shuffled rows, dyadic sizes, thresholds "
        "swept around the observed counts / exact ties with the mean sizes, every index layout; "
        "pipeline stream: random producer chains (depth 1-4; thorough <=6 plus all chains of depth "
        "<=3) started from every initial layout, all 12 stages applied after every prefix.  "
        "Non-trivial = filter case that both keeps and drops a trajectory / pipeline case with >=2 "
        "accepted producer steps and >=8 consumer comparisons; distinct = distinct canonical input.")
ASSUMPTIONS = [
    "index layouts are abstracted to 12 classes (Model/Pipeline.lean Layout); that acceptance, the "
    "produced class and 'same numbers' depend only on the class is an assumption attacked by the "
    "pipeline stream (every observation is compared with the measured table)",
    "pipelines start from tables in the layouts liveInit = every single-level layout except an "
    "index named 'particle' (range, labels, dupLabels, frameIdx, frameIdxU, otherNamed, "
    "otherNamedDup); MultiIndex / particle-named layouts are in scope only when a stage returns them",
    "every stage receives a copy of the table (caller-side mutation such as pandas_sort's in-place "
    "rename of the index name is the subject of C18, not of this check)",
    "'same numbers' = same column values after sorting rows by (frame, particle, positions, all "
    "columns), index layout ignored for trajectory tables; for the derived tables (drift, msd, "
    "proximity, relate_frames) index values and column values, names ignored; tolerance 1e-9 rel.",
    "a stage that raises on the plain default-indexed table as well (degenerate data: empty table, "
    "one-row trajectories) is not counted against the layout; the chain stops there",
    "filter sizes are k/4 and cuts k/8 or exact group means, so the float mean is compared with the "
    "cut exactly or with margin >= 1/96; a margin < 1e-9 that is not an exact tie is borderline",
    "numba, scikit-learn and pims are absent: link uses the KDTree + recursive/hybrid defaults",
]
MIN_NONTRIVIAL = 20

PRODUCERS = ["link", "link_partial", "filter_stubs", "filter_clusters", "subtract_drift"]
CONSUMERS = ["compute_drift", "msd", "imsd", "emsd", "cluster", "proximity", "relate_frames"]
STAGES = PRODUCERS + CONSUMERS
LAYOUTS = ["range", "labels", "dupLabels", "frameIdx", "frameIdxU", "particleIdx", "otherNamed",
           "otherNamedDup", "frameParticleMI", "frameMI", "particleMI", "otherMI"]
INIT_LAYOUTS = ["range", "labels", "dupLabels", "frameIdx", "frameIdxU", "otherNamed",
                "otherNamedDup"]
LEAN_STAGE = {"link": ".prod .link", "link_partial": ".prod .linkPartial",
              "filter_stubs": ".prod .filterStubs", "filter_clusters": ".prod .filterClusters",
              "subtract_drift": ".prod .subtractDrift", "compute_drift": ".cons .computeDrift",
              "msd": ".cons .msd", "imsd": ".cons .imsd", "emsd": ".cons .emsd",
              "cluster": ".cons .cluster", "proximity": ".cons .proximity",
              "relate_frames": ".cons .relateFrames"}
LEAN_PROD = {"link": ".link", "link_partial": ".linkPartial", "filter_stubs": ".filterStubs",
             "filter_clusters": ".filterClusters", "subtract_drift": ".subtractDrift"}

_TP = {}


def init(ctx):
    _TP["tp"] = common.setup_repo_path()
    import pandas as pd
    _TP["pd"] = pd


def tp():
    return _TP["tp"]


def pd():
    return _TP["pd"]


# ------------------------------------------------------------------------------------------
# tables and layouts

def gen_rows(rng, npart=None, nframes=None, dup=False, close=False):
    """random trajectory table as a list of dict rows (dyadic numbers, gaps, entering/leaving)"""
    npart = npart or rng.randint(1, 6)
    nframes = nframes or rng.randint(2, 12)
    f0 = rng.choice([0, 0, 0, 1, 5])
    rows = []
    for p in range(npart):
        a = rng.randint(0, max(0, nframes - 2))
        b = rng.randint(a, nframes - 1) if rng.random() < 0.5 else nframes - 1
        if rng.random() < 0.5:
            a = 0
        x = (4.0 if close else 12.0) * p + rng.randint(0, 8) / 8.0
        y = rng.randint(0, 40) / 8.0
        size = rng.randint(4, 24) / 4.0
        for f in range(a, b + 1):
            x += rng.randint(-4, 6) / 8.0
            y += rng.randint(-4, 6) / 8.0
            if b - a >= 2 and a < f < b and rng.random() < 0.15:
                continue                                        # gap
            rows.append(dict(x=x, y=y, frame=f0 + f, particle=p,
                             size=size + rng.randint(-2, 2) / 4.0,
                             mass=float(rng.randint(50, 400))))
    if not rows:
        rows.append(dict(x=1.0, y=1.0, frame=f0, particle=0, size=2.0, mass=100.0))
    if dup and len(rows) > 1:
        r = dict(rng.choice(rows))
        r["x"] += 0.5
        rows.append(r)                                          # same label twice in one frame
    order = rng.choice(["frame", "particle", "shuffle"])
    if order == "frame":
        rows.sort(key=lambda r: (r["frame"], r["particle"]))
    elif order == "shuffle":
        rng.shuffle(rows)
    lab = rng.choice([0, 0, 1, 2])
    if lab:                                                     # non-contiguous labels
        for r in rows:
            r["particle"] = r["particle"] * 3 + 2 if lab == 1 else 40 - 7 * r["particle"]
    return rows


def make_df(rows, columns=None):
    df = pd().DataFrame(rows, columns=columns or ["x", "y", "frame", "particle", "size", "mass"])
    df["frame"] = df["frame"].astype(np.int64)
    df["particle"] = df["particle"].astype(np.int64)
    return df


def apply_layout(df, layout, variant=0):
    """the same data (rows, order, columns) under the index layout class `layout`"""
    t = df.reset_index(drop=True).copy()
    n = len(t)
    P = pd()
    if layout == "range":
        return t
    if layout == "labels":
        t.index = ([5 * i + 3 for i in range(n)][::-1] if variant % 2 == 0
                   else [(7 * i + 2) % (7 * n + 1) + 10 for i in range(n)])
        return t
    if layout == "dupLabels":
        t.index = [i // 2 for i in range(n)] if variant % 2 == 0 else [i % 3 for i in range(n)]
        return t
    if layout == "frameIdx":
        return t.set_index("frame", drop=False)
    if layout == "frameIdxU":                                   # named 'frame', unique values
        t.index = P.Index([100 + 2 * i for i in range(n)], name="frame")
        return t
    if layout == "particleIdx":
        if variant % 2 == 0 and "particle" in t.columns:
            return t.set_index("particle", drop=False)
        t.index = P.Index(list(range(n)), name="particle")
        return t
    if layout == "otherNamed":
        t.index = P.Index([3 * i + 1 for i in range(n)],
                          name="frame_index" if variant % 2 == 0 else "foo")
        return t
    if layout == "otherNamedDup":
        t.index = P.Index(t["frame"].values if variant % 2 == 0 else [i // 2 for i in range(n)],
                          name="frame_index" if variant % 2 == 0 else "foo")
        return t
    if layout == "frameParticleMI":
        if "particle" in t.columns:
            return t.set_index(["frame", "particle"], drop=False)
        t.index = P.MultiIndex.from_arrays([t["frame"].values, list(range(n))],
                                           names=["frame", "particle"])
        return t
    if layout == "frameMI":                                     # a level named frame, none named particle
        t.index = P.MultiIndex.from_arrays([t["frame"].values, list(range(n))],
                                           names=["frame", None if variant % 2 == 0 else "k"])
        return t
    if layout == "particleMI":
        t.index = P.MultiIndex.from_arrays([list(range(n)), t["particle"].values
                                            if "particle" in t.columns else [0] * n],
                                           names=[None if variant % 2 == 0 else "k", "particle"])
        return t
    if layout == "otherMI":
        t.index = P.MultiIndex.from_arrays([list(range(n)), [i // 2 for i in range(n)]],
                                           names=[None, None] if variant % 2 == 0 else ["a", "b"])
        return t
    raise ValueError(layout)


def classify(df):
    """index layout class of a table (total)"""
    P = pd()
    ix = df.index
    if isinstance(ix, P.MultiIndex):
        names = list(ix.names)
        if "frame" in names and "particle" in names:
            return "frameParticleMI"
        if "particle" in names:
            return "particleMI"
        if "frame" in names:
            return "frameMI"
        return "otherMI"
    if ix.name is None:
        if isinstance(ix, P.RangeIndex) and ix.start == 0 and ix.step == 1:
            return "range"
        if len(ix) and ix.is_unique and ix.dtype.kind in "iu" and \
                np.array_equal(ix.values, np.arange(len(ix))):
            return "range"
        return "labels" if ix.is_unique else "dupLabels"
    if ix.name == "frame":
        return "frameIdx" if not ix.is_unique or len(ix) == 0 else "frameIdxU"
    if ix.name == "particle":
        return "particleIdx"
    return "otherNamed" if ix.is_unique else "otherNamedDup"


# ------------------------------------------------------------------------------------------
# stages

def default_params():
    return dict(search_range=3.0, memory=1, link_range=[1, 4], stub_thr=3, cut=None, quantile=0.8,
                separation=5.0)


def run_stage(name, t, par):
    """one stage on (a copy of) table t with parameters derived from `par` and the data"""
    T = tp()
    t = t.copy()
    if name == "link":
        return T.link(t, par["search_range"], memory=par.get("memory", 0))
    if name == "link_partial":
        fr = t["frame"]
        a = int(fr.min()) + par["link_range"][0]
        b = max(a + 1, int(fr.min()) + par["link_range"][1])
        return T.link_partial(t, par["search_range"], (a, b))
    if name == "filter_stubs":
        return T.filter_stubs(t, par["stub_thr"])
    if name == "filter_clusters":
        if par.get("cut") is None:
            return T.filter_clusters(t, quantile=par.get("quantile", 0.8))
        return T.filter_clusters(t, threshold=par["cut"])
    if name == "subtract_drift":
        return T.subtract_drift(t)
    if name == "compute_drift":
        return T.compute_drift(t)
    if name == "msd":
        p0 = t["particle"].min()
        return T.msd(t[t["particle"] == p0], 0.5, 2.0, max_lagtime=6)
    if name == "imsd":
        return T.imsd(t, 0.5, 2.0, max_lagtime=6)
    if name == "emsd":
        return T.emsd(t, 0.5, 2.0, max_lagtime=6)
    if name == "cluster":
        return T.cluster(t, par["separation"])
    if name == "proximity":
        return T.proximity(t)
    if name == "relate_frames":
        f1 = int(t["frame"].min())
        return T.relate_frames(t, f1, f1 + 1)
    raise ValueError(name)


def try_stage(name, t, par):
    try:
        return ("ok", run_stage(name, t, par))
    except Exception as e:                                       # judged by the caller
        return ("err", type(e).__name__, str(e)[:160])


def _num(v):
    if v is None:
        return None
    try:
        if isinstance(v, (float, np.floating)):
            return None if np.isnan(v) else float(v)
        if isinstance(v, (int, np.integer, bool, np.bool_)):
            return float(v)
    except Exception:
        pass
    return str(v)


def canon_traj(df):
    """values of a trajectory table, index layout and row order ignored"""
    cols = sorted(str(c) for c in df.columns)
    key = [c for c in ["frame", "particle", "x", "y"] if c in cols] + \
          [c for c in cols if c not in ("frame", "particle", "x", "y")]
    d = {str(c): df[c].values for c in df.columns}
    rows = [tuple(_num(d[c][i]) for c in key) for i in range(len(df))]
    rows.sort(key=lambda r: tuple((0, 0.0, "") if v is None else
                                  ((1, v, "") if isinstance(v, float) else (2, 0.0, v))
                                  for v in r))
    return dict(cols=key, rows=rows)


def canon_derived(obj):
    """a derived table / series: index values + column values (names of the index ignored)"""
    P = pd()
    if isinstance(obj, P.Series):
        obj = obj.to_frame(name="value")
    cols = [str(c) for c in obj.columns]
    ix = obj.index
    if isinstance(ix, P.MultiIndex):
        ixv = [tuple(_num(v) for v in tup) for tup in ix.values]
    else:
        ixv = [(_num(v),) for v in ix.values]
    rows = []
    for i in range(len(obj)):
        rows.append(tuple(ixv[i]) + tuple(_num(obj.iloc[i, j]) for j in range(len(cols))))
    return dict(cols=cols, rows=rows)


def canon_out(stage, obj):
    if stage in PRODUCERS or stage == "cluster":
        return canon_traj(obj)
    c = canon_derived(obj)
    if stage in ("proximity", "relate_frames"):
        # row order follows the input rows; indexed by particle: compare as a multiset
        c["rows"].sort(key=lambda r: tuple((0, 0.0, "") if v is None else
                                           ((1, v, "") if isinstance(v, float) else (2, 0.0, v))
                                           for v in r))
    return c


def same_numbers(a, b, tol=1e-9):
    if a["cols"] != b["cols"] or len(a["rows"]) != len(b["rows"]):
        return False
    for ra, rb in zip(a["rows"], b["rows"]):
        if len(ra) != len(rb):
            return False
        for u, v in zip(ra, rb):
            if u is None or v is None:
                if u is not v:
                    return False
            elif isinstance(u, float) and isinstance(v, float):
                if u != v and abs(u - v) > tol * max(1.0, abs(u), abs(v)):
                    if not (np.isinf(u) and np.isinf(v) and u == v):
                        return False
            elif u != v:
                return False
    return True


def observe(stage, t, par):
    """run `stage` on table t and on the same data in a plain default-indexed table.
    returns dict(status = ok | rejects | differs | degenerate, out=table or None, layout, error)"""
    plain = try_stage(stage, t.reset_index(drop=True), par)
    got = try_stage(stage, t, par)
    if plain[0] == "err":
        return dict(status="degenerate", out=None, layout=None,
                    error=plain[1], both=(got[0] == "err"))
    if got[0] == "err":
        return dict(status="rejects", out=None, layout=None, error=got[1], msg=got[2])
    out = got[1]
    lay = classify(out) if stage in PRODUCERS else None
    same = same_numbers(canon_out(stage, out), canon_out(stage, plain[1]))
    return dict(status="ok" if same else "differs", out=out, layout=lay,
                error=None if same else "numbers-differ")


# ------------------------------------------------------------------------------------------
# the measured stage x layout table

def representative_rows():
    """fixed, data-rich representative tables (deterministic: independent of VERIF_SEED)"""
    import random
    reps = []
    for k in range(4):
        rng = random.Random("C20-representative-%d" % k)
        rows = gen_rows(rng, npart=3 + k % 3, nframes=6 + 2 * k, close=(k == 3))
        reps.append(rows)
    return reps


def measure_table():
    """{(stage, layout): dict(acc=bool, out=layout|None, same=bool, errors=[...], n=int)}
    measured by running every stage on every representative table under every layout."""
    table = {}
    reps = representative_rows()
    par = default_params()
    for lay in LAYOUTS:
        for st in STAGES:
            accs, outs, sames, errs = [], [], [], []
            for k, rows in enumerate(reps):
                for variant in (0, 1):
                    t = apply_layout(make_df(rows), lay, variant)
                    assert classify(t) == lay, (lay, classify(t))
                    ob = observe(st, t, par)
                    if ob["status"] == "degenerate":
                        continue
                    accs.append(ob["status"] != "rejects")
                    if ob["status"] == "rejects":
                        errs.append(ob["error"])
                    else:
                        sames.append(ob["status"] == "ok")
                        if ob["layout"] is not None:
                            outs.append(ob["layout"])
            ent = dict(n=len(accs), acc=bool(accs) and all(accs), mixed=len(set(accs)) > 1,
                       same=bool(sames) and all(sames), outs=sorted(set(outs)),
                       errors=sorted(set(errs)))
            table[(st, lay)] = ent
    return table
