"""Shared machinery of the correspondence harness (see FRAMEWORK.md).

A property module `harness/cXX.py` defines

    PROP = "CXX"
    RULE = "how cases are generated and what makes one non-trivial"
    ASSUMPTIONS = [...]
    def gen_cases(ctx):            # yields JSON-serialisable inputs (dicts); corpus first
    def run_case(ctx, inp):        # runs implementation + model (+ oracle) on ONE input, returns Result

`run_case` is also what `--replay` executes.  Everything random derives from
`ctx.rng(stream, i)` which is seeded by (VERIF_SEED, property, stream, i).
"""
import collections
import hashlib
import importlib
import json
import multiprocessing
import os
import random
import subprocess
import sys
import time
import traceback
from fractions import Fraction

HERE = os.path.dirname(os.path.abspath(__file__))
ROOT = os.path.dirname(HERE)
LEAN_DIR = os.path.join(ROOT, "lean")
DRIVER = os.path.join(LEAN_DIR, ".lake", "build", "bin", "driver")
REPO = os.environ.get("VERIF_REPO", "/repo")


def setup_repo_path():
    """Make `import trackpy` resolve to the working tree under test."""
    if REPO not in sys.path:
        sys.path.insert(0, REPO)
    for m in list(sys.modules):
        if m == "trackpy" or m.startswith("trackpy."):
            del sys.modules[m]
    import warnings
    warnings.filterwarnings("ignore")
    import trackpy  # noqa
    got = os.path.dirname(os.path.dirname(os.path.abspath(trackpy.__file__)))
    if os.path.realpath(got) != os.path.realpath(REPO):
        raise RuntimeError("trackpy imported from %s, expected %s" % (got, REPO))
    try:
        trackpy.quiet()
    except Exception:
        pass
    return trackpy


def canon(obj):
    return json.dumps(obj, sort_keys=True, default=str, separators=(",", ":"))


def digest(obj):
    return hashlib.sha256(canon(obj).encode()).hexdigest()[:16]


def frac(x):
    """Exact rational of a float / int / Fraction / 'p/q' string."""
    if isinstance(x, Fraction):
        return x
    if isinstance(x, str):
        return Fraction(x)
    if isinstance(x, (int,)):
        return Fraction(x)
    try:
        import numpy as np
        if isinstance(x, np.integer):
            return Fraction(int(x))
        if isinstance(x, np.floating):
            return Fraction(float(x))
    except ImportError:
        pass
    return Fraction(x)


def rat_str(x):
    f = frac(x)
    return str(f.numerator) if f.denominator == 1 else "%d/%d" % (f.numerator, f.denominator)


class Driver:
    """Persistent native driver process; one request line -> one response line."""

    def __init__(self):
        if not os.path.exists(DRIVER):
            raise RuntimeError("driver not built: " + DRIVER)
        self.p = subprocess.Popen([DRIVER], stdin=subprocess.PIPE, stdout=subprocess.PIPE,
                                  text=True, bufsize=1)
        self.n = 0

    def ask(self, line):
        assert "\n" not in line
        self.p.stdin.write(line + "\n")
        self.p.stdin.flush()
        out = self.p.stdout.readline()
        if not out:
            raise RuntimeError("driver died on request: " + line[:200])
        self.n += 1
        if os.environ.get("VERIF_ASKLOG"):                      # debugging aid
            with open(os.environ["VERIF_ASKLOG"], "a") as f:
                f.write(line + "\n=> " + out)
        return out.rstrip("\n")

    def close(self):
        try:
            self.p.stdin.close()
            self.p.wait(timeout=5)
        except Exception:
            self.p.kill()


def kv(resp):
    """parse 'a=1 b=x,y' responses into a dict"""
    out = {}
    for tok in resp.split():
        if "=" in tok:
            k, v = tok.split("=", 1)
            out[k] = v
        else:
            out[tok] = True
    return out


class Result:
    """What one case contributes."""

    def __init__(self, nontrivial=False, key=None):
        self.nontrivial = nontrivial
        self.key = key            # canonical hash of the input (distinctness); filled by runner
        self.stats = collections.Counter()
        self.sample = None        # optional dict written into evidence.samples
        self.viol = []            # list of violation dicts
        self.borderline = False
        self.model_calls = 0

    def stat(self, name, n=1):
        self.stats[name] += n

    def violation(self, kind, message, impl=None, model=None, broken=None, signature=None):
        """kind: 'property-violation' (the direct oracle failed on the real code: concrete input)
                 'correspondence-break' (model and implementation differ; oracle found nothing)"""
        self.viol.append(dict(kind=kind, message=message, implementation_output=impl,
                              model_output=model, broken=broken, signature=signature or {}))


class Ctx:
    def __init__(self, prop, tier, seed):
        self.prop = prop
        self.tier = tier
        self.seed = seed
        self.repo = REPO
        self._driver = None
        self.thorough = tier == "thorough"

    def rng(self, stream, i=0):
        return random.Random("%d:%s:%s:%d" % (self.seed, self.prop, stream, i))

    @property
    def driver(self):
        if self._driver is None:
            self._driver = Driver()
        return self._driver

    def ask(self, line):
        return self.driver.ask(line)

    def n(self, quick, thorough):
        return thorough if self.thorough else quick

    def corpus(self):
        d = os.path.join(ROOT, "corpus", self.prop)
        if not os.path.isdir(d):
            return
        for fn in sorted(os.listdir(d)):
            if fn.endswith(".json"):
                with open(os.path.join(d, fn)) as f:
                    rec = json.load(f)
                yield rec["input"] if "input" in rec and "property" in rec else rec


# ---------------------------------------------------------------------------------------------
# known findings

def load_known():
    p = os.path.join(ROOT, "known_findings.json")
    if not os.path.exists(p):
        return []
    with open(p) as f:
        return json.load(f).get("findings", [])


def match_known(prop, signature, known):
    for k in known:
        if k.get("status") != "known" or k.get("property") != prop:
            continue
        sig = k.get("signature", {})
        if sig and all(signature.get(a) == b for a, b in sig.items()):
            return k
    return None


# ---------------------------------------------------------------------------------------------
# runner

_WORK = {}


def _init_worker(modname, prop, tier, seed):
    mod = importlib.import_module(modname)
    ctx = Ctx(prop, tier, seed)
    _WORK["mod"] = mod
    _WORK["ctx"] = ctx
    if hasattr(mod, "init"):
        mod.init(ctx)


class CaseTimeout(BaseException):
    """Raised by SIGALRM inside a case; BaseException so that no `except Exception` swallows it."""


def _on_alarm(signum, frame):
    raise CaseTimeout()


def _case_timeout_s(tier):
    return float(os.environ.get("VERIF_CASE_TIMEOUT_S", "240" if tier == "thorough" else "60"))


def _run_one(inp):
    """One case, under a wall-clock limit.  A case that exceeds it is *skipped and counted*
    (stat `case_timeout`): an exponential sub-net search on an unlucky generated level is a property
    of the generator, not a verdict on the code; `check` turns too many of them into exit 2."""
    import signal
    mod, ctx = _WORK["mod"], _WORK["ctx"]
    t0 = time.time()
    signal.signal(signal.SIGALRM, _on_alarm)
    signal.setitimer(signal.ITIMER_REAL, _case_timeout_s(ctx.tier))
    try:
        try:
            res = mod.run_case(ctx, inp)
        finally:
            signal.setitimer(signal.ITIMER_REAL, 0)
    except CaseTimeout:
        res = Result()
        res.stat("case_timeout")
        res.timed_out = True
        try:                       # the driver may be mid-request: discard it, a new one starts lazily
            if getattr(ctx, "_driver", None) is not None:
                ctx._driver.p.kill()
        except Exception:
            pass
        ctx._driver = None
    except Exception:  # a crash of the harness or of the implementation on a generated input
        res = Result()
        res.violation("harness-error", traceback.format_exc()[-3000:])
    res.key = digest(inp)
    return dict(key=res.key, nontrivial=bool(res.nontrivial), stats=dict(res.stats),
                sample=res.sample, viol=res.viol, borderline=res.borderline, inp=inp,
                dt=time.time() - t0)


def _run_chunk(inps):
    return [_run_one(i) for i in inps]


def _chunks(it, n):
    buf = []
    for x in it:
        buf.append(x)
        if len(buf) == n:
            yield buf
            buf = []
    if buf:
        yield buf


def run_module(modname, prop, tier, seed, replay=None, jobs=None, budget_s=None):
    """Runs a property module; returns the dict the `check` script turns into evidence/verdict."""
    t0 = time.time()
    mod = importlib.import_module(modname)
    ctx = Ctx(prop, tier, seed)
    if replay is not None:
        with open(replay) as f:
            rec = json.load(f)
        inputs = [rec["input"] if "input" in rec else rec]
    else:
        inputs = mod.gen_cases(ctx)
    if jobs is None:
        jobs = int(os.environ.get("VERIF_JOBS", "0")) or (min(16, os.cpu_count() or 1)
                                                           if tier == "thorough" else
                                                           min(8, os.cpu_count() or 1))
    if budget_s is None:
        budget_s = float(os.environ.get("VERIF_BUDGET_S", "3000" if tier == "thorough" else "600"))
    agg = dict(evaluations=0, keys_nontrivial=set(), keys=set(), stats=collections.Counter(),
               samples=[], violations=[], borderline=0, harness_errors=[], truncated=False)

    def absorb(r):
        agg["evaluations"] += 1
        agg["keys"].add(r["key"])
        if r["nontrivial"]:
            agg["keys_nontrivial"].add(r["key"])
        agg["stats"].update(r["stats"])
        if r["stats"].get("case_timeout") and len(agg.setdefault("timeouts", [])) < 5:
            agg["timeouts"].append(r["inp"])
        if r["borderline"]:
            agg["borderline"] += 1
        if r["sample"] is not None and len(agg["samples"]) < 4:
            agg["samples"].append(r["sample"])
        for v in r["viol"]:
            v = dict(v)
            v["input"] = r["inp"]
            if v["kind"] == "harness-error":
                agg["harness_errors"].append(v)
            else:
                agg["violations"].append(v)

    if jobs <= 1 or replay is not None:
        _init_worker(modname, prop, tier, seed)
        for inp in inputs:
            absorb(_run_one(inp))
            if time.time() - t0 > budget_s:
                agg["truncated"] = True
                break
    else:
        mpctx = multiprocessing.get_context("fork")
        with mpctx.Pool(jobs, initializer=_init_worker,
                        initargs=(modname, prop, tier, seed)) as pool:
            it = pool.imap_unordered(_run_chunk, _chunks(inputs, 4))
            while True:
                try:
                    r = it.next(timeout=max(1.0, min(30.0, budget_s - (time.time() - t0))))
                except StopIteration:
                    break
                except multiprocessing.TimeoutError:
                    r = None
                for r1 in (r or []):
                    absorb(r1)
                if time.time() - t0 > budget_s:
                    agg["truncated"] = True
                    pool.terminate()
                    break
    agg["wall_s"] = time.time() - t0
    agg["rule"] = getattr(mod, "RULE", "")
    agg["assumptions"] = list(getattr(mod, "ASSUMPTIONS", []))
    agg["min_nontrivial"] = getattr(mod, "MIN_NONTRIVIAL", 2)
    return agg
