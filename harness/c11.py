"""C11 — a predictor only moves the search origin.

For each generated movie M (integer positions), velocity v and frame numbering t0 + k*dt:
  A : plain link_iter on M;
  B : link_iter on M + v*t with the user predictor  pos + v*(t1 - particle.t)  built with
      trackpy.predict.predictor;
both labelled outputs are judged by the monitor (`LRUN`, B with vel=v on the drifted positions;
Props/C11 stepCheck_drift / accepts_drift prove that B is accepted iff the undrifted labelling is
accepted without predictor), and the partitions are compared (equal when every step of A has a
unique optimum, equal cost otherwise).  NullPredict().link_df_iter is compared with link_df_iter
(Props/C11 null_predictor_eq).
"""
import numpy as np

from . import common, linkcommon
from .common import Result

PROP = "C11"
RULE = ("C01 movie stream (integer lattice), drift velocities from {0, small, >> search_range}, "
        "frame numberings t0 + k*dt (dt in {1,2}), memory 0-3 with planted disappear/reappear "
        "histories, three strategies.  Non-trivial = the movie has a contested sub-net or a "
        "memory re-link AND v != 0 (drift stream) / a contested sub-net (null stream); distinct "
        "= distinct canonical input.")
ASSUMPTIONS = [
    "integer positions and integer velocities: pos + v*t and the prediction are exact in float64",
    "partition equality is required when every step's optimum is unique; with ties both runs must "
    "be accepted by the monitor (equal cost)",
]
MIN_NONTRIVIAL = 20


def init(ctx):
    common.setup_repo_path()


def gen_cases(ctx):
    for inp in ctx.corpus():
        yield inp
    n = ctx.n(300, 3000)
    for i in range(n):
        rng = ctx.rng("drift", i)
        mv = linkcommon.gen_movie(rng, thorough=ctx.thorough, plant_history=True)
        mv["stream"] = "drift"
        mv["scale_pow"] = 0
        mv["entry"] = "link_iter"
        mv["strategy"] = rng.choice(["recursive", "nonrecursive", "numba", None])
        mv["tstep"] = rng.choice([1, 1, 2])
        mag = rng.choice([0, 1, 2, 50, 1000])
        mv["vel"] = [rng.randint(-mag, mag) * mv.get("fine", 1) for _ in range(mv["dim"])]
        yield mv
    m = ctx.n(80, 1000)
    for i in range(m):
        rng = ctx.rng("null", i)
        mv = linkcommon.gen_movie(rng, thorough=False, plant_history=True)
        mv["stream"] = "null"
        mv["entry"] = "link_df_iter"
        mv["strategy"] = rng.choice(["recursive", "nonrecursive", None])
        yield mv


def partition(levels):
    d = {}
    for k, (t, pts, labels) in enumerate(levels):
        for i, l in enumerate(labels):
            d.setdefault(l, []).append((k, i))
    return frozenset(frozenset(v) for v in d.values())


def judge(ctx, res, inp, levels, vel, what):
    m = common.kv(ctx.ask(linkcommon.lrun_line(inp, levels, vel=vel)))
    if m.get("verdict") in ("ok", "capped", "expect-oversize"):
        return m
    reason = str(m.get("reason")).replace("_", " ")
    omsg = linkcommon.oracle_levels(inp, levels, vel=vel)
    if omsg is not None:
        res.violation("property-violation", "%s: %s" % (what, omsg), impl=levels, model=m,
                      signature=dict(what=what + ": " + reason))
    else:
        res.violation("correspondence-break", "%s: monitor rejects (%s), oracle accepts" % (what, reason),
                      impl=levels, model=m, broken="Linker.stepCheck with view",
                      signature=dict(what=what + ": " + reason))
    return None


def run_case(ctx, inp):
    import trackpy as tp
    res = Result()
    if inp["stream"] == "null":
        a = linkcommon.run_impl(inp)
        b = linkcommon.run_impl(dict(inp, null_predict=True))
        res.stat("null_cases")
        if any(l[2] is None for l in a) or any(l[2] is None for l in b):
            if [l[2] is None for l in a] != [l[2] is None for l in b]:
                res.violation("property-violation", "NullPredict changes whether linking raises",
                              impl=dict(plain=a, null=b), signature=dict(what="null-raise-differs"))
            return res
        ma = judge(ctx, res, inp, a, None, "plain link_df_iter")
        mb = judge(ctx, res, inp, b, None, "NullPredict.link_df_iter")
        if ma and mb:
            res.nontrivial = int(ma.get("contested", 0)) > 0
            if partition(a) != partition(b) and ma.get("ties") == "0":
                res.violation("property-violation",
                              "NullPredict().link_df_iter gives another partition than link_df_iter",
                              impl=dict(plain=a, null=b), signature=dict(what="null-partition-differs"))
        return res
    vel = np.array(inp["vel"], dtype=float)

    @tp.predict.predictor
    def pred(t1, particle):
        return particle.pos + vel * (t1 - particle.t)

    a = linkcommon.run_impl(inp)
    binp = dict(inp, drift=inp["vel"])
    b = linkcommon.run_impl(binp, predictor=pred)
    res.stat("drift_cases")
    res.stat("vel_zero" if not any(inp["vel"]) else
             ("vel_large" if max(abs(x) for x in inp["vel"]) * 4 > 3 * max(inp["sr"]) else "vel_small"))
    ra, rb = [l[2] is None for l in a], [l[2] is None for l in b]
    if ra != rb:
        res.violation("property-violation", "drift+predictor changes whether/where linking raises",
                      impl=dict(plain=a, drifted=b), signature=dict(what="raise-differs"))
        return res
    ma = judge(ctx, res, inp, a, None, "plain run")
    mb = judge(ctx, res, binp, b, inp["vel"], "drifted run with predictor")
    if ma is None or mb is None:
        return res
    c, r = int(ma.get("contested", 0)), int(ma.get("relinks", 0))
    res.stat("contested_subnets", c)
    res.stat("memory_relinks", r)
    res.nontrivial = (c + r) > 0 and any(inp["vel"])
    if any(l[2] is None for l in a):
        return res
    if partition(a) != partition(b):
        if ma.get("ties") == "0" and ma.get("verdict") == "ok":
            res.violation("property-violation",
                          "partition of the drifted movie linked with the drift predictor differs "
                          "from the partition of the undrifted movie (unique optimum at every step)",
                          impl=dict(plain=a, drifted=b), signature=dict(what="partition-differs"))
        else:
            res.stat("tie_partition_differs")
    elif res.nontrivial and len(a) <= 4:
        res.sample = dict(input=inp, labels_plain=[l[2] for l in a], labels_drifted=[l[2] for l in b])
    return res
