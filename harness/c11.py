"""C11 — a predictor only moves the search origin.

For each generated movie M (integer positions), velocity v and frame numbering t0 + k*dt:
  A : plain link_iter on M;
  B : link_iter on M + v*t with the user predictor  pos + v*(t1 - particle.t)  built with
      trackpy.predict.predictor;
both labelled outputs are judged by the monitor (`LRUN`, B with vel=v on the drifted positions;
Props/C11 stepCheck_drift / accepts_drift prove that B is accepted iff the undrifted labelling is
accepted without predictor), and the partitions are compared (equal when every step of A has a
unique optimum, equal cost otherwise).  NullPredict().link_df_iter is compared with link_df_iter
(Props/C11 null_predictor_eq).

Stream `stateful` (third clause: labels produced with ANY predictor remain unique per frame): the
movie (plain / uniformly drifting / sheared variant of the C01 stream) is linked with trackpy's own
stateful predictors NearestVelocityPredict, DriftPredict, ChannelPredict (through their
link_df_iter / wrap / link_df), each wrapped in a thin recording subclass that notes, at every call
of `predict`, the points it was asked about and the positions it returned.  The labelled output is
judged by
  (i)  the direct oracle of the statement (`oracle_unique`: one label per feature, labels unique
       per frame, a label never reappears after more than `memory` missed frames), and
  (ii) the predictor-independent monitor `stepCheckAny` (driver op `LANY`, Props/C11Any
       acceptedAny_valid / acceptedAny_unique / labelAny_never_restarts) with `pred` instantiated
       by the recorded predictions - exactly: every float is sent as `Fraction(float)`, the whole
       movie scaled by the common denominator; the driver also reports whether the points the
       predictor was asked about are exactly the monitor's candidate sources (`srcmatch`);
  (iii) DriftPredict only: every recorded prediction is `pos + vel*(t - t_obs)` with the velocity in
       force at that call, i.e. the monitor's `view` (each source over its own elapsed time).
  (o)  entry `link_df` only (Model/PredictTable.wrapSingle, Props/C11Table, driver op `PTABLE`): the
       recording subclass wraps the linking function at run time and notes every per-frame table
       that reaches it and every table it yields; the sequence of frame values, the row order inside
       every frame and the returned table must be the model's (ascending frame value, table order
       inside a frame, labels written back positionally, groups concatenated in frame order).
A failure of (i) is a property-violation; (o)/(ii)/(iii) failing while (i) holds is a correspondence-break.
"""
import numpy as np  # noqa

from . import common, linkcommon
from .common import Result

PROP = "C11"
RULE = ("C01 movie stream (integer lattice), drift velocities from {0, small, >> search_range}, "
        "frame numberings t0 + k*dt (dt in {1,2}), memory 0-3 with planted disappear/reappear "
        "histories, three strategies.  Non-trivial = the movie has a contested sub-net or a "
        "memory re-link AND v != 0 (drift stream) / a contested sub-net (null stream); distinct "
        "= distinct canonical input.  Stateful stream: the same movies without empty frames, plain / "
        "plus a uniform drift v*t / plus a shear u(y)*t, linked with NearestVelocityPredict (dim >= 2), "
        "DriftPredict, ChannelPredict (dim 2) with span 1-3, with and without (exact, halved or "
        "opposite) initial guesses, memory 0-3, through link_df_iter / wrap / link_df; non-trivial = "
        "some recorded prediction differs from the observed position AND the movie has a memory "
        "re-link or a link that is within range of the prediction only.")
ASSUMPTIONS = [
    "integer positions and integer velocities: pos + v*t and the prediction are exact in float64",
    "partition equality is required when every step's optimum is unique; with ties both runs must "
    "be accepted by the monitor (equal cost)",
    "stateful stream: recorded predictions are floats; they reach the monitor exactly (Fraction(float), "
    "common denominator); a link whose exact squared distance to the recorded prediction exceeds the "
    "squared range by a relative amount <= 1e-6 (trackpy queries with search_range + 1e-7) is counted "
    "borderline and not judged",
    "stateful stream: no empty frames (every stateful predictor of predict.py raises IndexError in "
    "_compute_velocities on an empty frame) and NearestVelocityPredict only for dim >= 2 (scipy's "
    "NearestNDInterpolator refuses 1-D data); DriftPredict raising `data must be finite` when two "
    "consecutive frames share no trajectory (mean of no velocities = NaN) and SubnetOversizeException "
    "end the movie: the labelled prefix is judged",
]
MIN_NONTRIVIAL = 20


def init(ctx):
    common.setup_repo_path()


def gen_cases(ctx):
    for inp in ctx.corpus():
        yield inp
    n = ctx.n(600, 4000)
    for i in range(n):
        rng = ctx.rng("drift", i)
        mv = linkcommon.gen_movie(rng, thorough=ctx.thorough, plant_history=True)
        mv["stream"] = "drift"
        mv["scale_pow"] = 0
        mv["entry"] = "link_iter"
        mv["strategy"] = rng.choice(["recursive", "nonrecursive", "numba", None])
        mv["tstep"] = rng.choice([1, 1, 2])
        mag = rng.choice([0, 1, 2, 50, 1000])
        if mv.get("fine"):
            mag = rng.choice([50, 1000, 1000])    # near-range pairs at LARGE coordinates
        mv["vel"] = [rng.randint(-mag, mag) * mv.get("fine", 1) for _ in range(mv["dim"])]
        yield mv
    m = ctx.n(80, 1000)
    for i in range(m):
        rng = ctx.rng("null", i)
        mv = linkcommon.gen_movie(rng, thorough=False, plant_history=True)
        mv["stream"] = "null"
        mv["entry"] = "link_df_iter"
        mv["strategy"] = rng.choice(["recursive", "nonrecursive", None])
        yield mv
    for i in range(ctx.n(260, 3000)):
        yield gen_stateful(ctx.rng("stateful", i))


def partition(levels):
    d = {}
    for k, (t, pts, labels) in enumerate(levels):
        for i, l in enumerate(labels):
            d.setdefault(l, []).append((k, i))
    return frozenset(frozenset(v) for v in d.values())


def judge(ctx, res, inp, levels, vel, what):
    m = common.kv(ctx.ask(linkcommon.lrun_line(inp, levels, vel=vel)))
    if m.get("verdict") in ("ok", "capped", "expect-oversize"):
        return m
    reason = str(m.get("reason")).replace("_", " ")
    omsg = linkcommon.oracle_levels(inp, levels, vel=vel)
    if omsg is not None:
        res.violation("property-violation", "%s: %s" % (what, omsg), impl=levels, model=m,
                      signature=dict(what=what + ": " + reason))
    else:
        res.violation("correspondence-break", "%s: monitor rejects (%s), oracle accepts" % (what, reason),
                      impl=levels, model=m, broken="Linker.stepCheck with view",
                      signature=dict(what=what + ": " + reason))
    return None


def run_case(ctx, inp):
    import trackpy as tp
    res = Result()
    if inp["stream"] == "stateful":
        return run_stateful_case(ctx, inp)
    if inp["stream"] == "null":
        a = linkcommon.run_impl(inp)
        b = linkcommon.run_impl(dict(inp, null_predict=True))
        res.stat("null_cases")
        if any(l[2] is None for l in a) or any(l[2] is None for l in b):
            if [l[2] is None for l in a] != [l[2] is None for l in b]:
                res.violation("property-violation", "NullPredict changes whether linking raises",
                              impl=dict(plain=a, null=b), signature=dict(what="null-raise-differs"))
            return res
        ma = judge(ctx, res, inp, a, None, "plain link_df_iter")
        mb = judge(ctx, res, inp, b, None, "NullPredict.link_df_iter")
        if ma and mb:
            res.nontrivial = int(ma.get("contested", 0)) > 0
            if partition(a) != partition(b) and ma.get("ties") == "0":
                res.violation("property-violation",
                              "NullPredict().link_df_iter gives another partition than link_df_iter",
                              impl=dict(plain=a, null=b), signature=dict(what="null-partition-differs"))
        return res
    vel = np.array(inp["vel"], dtype=float)

    @tp.predict.predictor
    def pred(t1, particle):
        return particle.pos + vel * (t1 - particle.t)

    a = linkcommon.run_impl(inp)
    binp = dict(inp, drift=inp["vel"])
    b = linkcommon.run_impl(binp, predictor=pred)
    res.stat("drift_cases")
    res.stat("vel_zero" if not any(inp["vel"]) else
             ("vel_large" if max(abs(x) for x in inp["vel"]) * 4 > 3 * max(inp["sr"]) else "vel_small"))
    ra, rb = [l[2] is None for l in a], [l[2] is None for l in b]
    if ra != rb:
        res.violation("property-violation", "drift+predictor changes whether/where linking raises",
                      impl=dict(plain=a, drifted=b), signature=dict(what="raise-differs"))
        return res
    ma = judge(ctx, res, inp, a, None, "plain run")
    mb = judge(ctx, res, binp, b, inp["vel"], "drifted run with predictor")
    if ma is None or mb is None:
        return res
    c, r = int(ma.get("contested", 0)), int(ma.get("relinks", 0))
    res.stat("contested_subnets", c)
    res.stat("memory_relinks", r)
    res.nontrivial = (c + r) > 0 and any(inp["vel"])
    if any(l[2] is None for l in a):
        return res
    if partition(a) != partition(b):
        if ma.get("ties") == "0" and ma.get("verdict") == "ok":
            res.violation("property-violation",
                          "partition of the drifted movie linked with the drift predictor differs "
                          "from the partition of the undrifted movie (unique optimum at every step)",
                          impl=dict(plain=a, drifted=b), signature=dict(what="partition-differs"))
        else:
            res.stat("tie_partition_differs")
    elif res.nontrivial and len(a) <= 4:
        res.sample = dict(input=inp, labels_plain=[l[2] for l in a], labels_drifted=[l[2] for l in b])
    return res


# ---------------------------------------------------------------------------------------------
# stateful predictors (third clause: labels produced with ANY predictor remain unique per frame)

COLS = {1: ["x"], 2: ["y", "x"], 3: ["z", "y", "x"]}
PRED_CLASSES = {"near": "NearestVelocityPredict", "drift": "DriftPredict", "chan": "ChannelPredict"}


def _guess_scaled(v, guess):
    """the initial guess handed to the predictor: the true velocity, half of it (dyadic) or its
    opposite"""
    if guess == "half":
        return [x / 2.0 for x in v]
    if guess == "opposite":
        return [-x for x in v]
    return list(v)


def gen_stateful(rng):
    mv = linkcommon.gen_movie(rng, thorough=False, plant_history=True)
    dim = mv["dim"]
    base = [f for f in mv["frames"] if f]          # no empty frames (see ASSUMPTIONS)
    if len(base) < 2:
        base = base + [[[0] * dim, [1] * dim], [[1] * dim]][:2 - len(base)] if base else \
            [[[0] * dim, [5] * dim], [[1] * dim, [5] * dim]]
    R = max(1, int(max(mv["sr"]) / 4.0))           # search range in coordinate units
    kind = rng.choice(["drift"] + (["near", "near"] if dim >= 2 else []) + (["chan", "chan"] if dim == 2 else []))
    variant = rng.choice(["plain", "drift", "drift", "shear"] if dim >= 2 else ["plain", "drift", "drift"])
    tstep = rng.choice([1, 1, 2])
    vel = [0] * dim
    shear = None
    if variant == "drift":
        mag = rng.choice([1, 2, R, 3 * R])
        vel = [rng.randint(-mag, mag) for _ in range(dim)]
    elif variant == "shear":
        # the velocity along the last axis ('x') depends on the bin of the first axis ('y')
        shear = dict(h=rng.choice([2, 3, 5]) * R, g=rng.choice([1, 2, R]))
    frames = []
    for k, pts in enumerate(base):
        e = k * tstep
        out = []
        for p in pts:
            q = [c + v * e for c, v in zip(p, vel)]
            if shear:
                q[-1] += shear["g"] * (p[0] // shear["h"]) * e
            out.append(q)
        frames.append(out)
    guess = rng.choice(["none", "none", "exact", "exact", "half", "opposite"])
    pk = dict(span=rng.choice([1, 1, 2, 3]))
    pred_cols = rng.random() < 0.3                  # give the predictor its own pos_columns
    if kind == "drift":
        if guess != "none":
            pk["initial_guess"] = _guess_scaled(vel if variant != "plain" else [1] * dim, guess)
            pred_cols = True
    elif kind == "near":
        if guess != "none":
            pts0 = [list(p) for p in frames[0][:6]]
            if shear:
                vels = [[0] * (dim - 1) + [shear["g"] * (p[0] // shear["h"])] for p in pts0]
            else:
                vels = [list(vel) if variant != "plain" else [1] * dim for _ in pts0]
            pk["initial_guess_positions"] = pts0
            pk["initial_guess_vels"] = [_guess_scaled(v, guess) for v in vels]
            pred_cols = True
    else:
        flow = rng.choice(["x", "x", "x", "y"])
        pk["flow_axis"] = flow
        pk["minsamples"] = rng.choice([1, 1, 2, 3])
        if shear:
            pk["bin_size"] = rng.choice([shear["h"], shear["h"], shear["h"] / 2.0, 2.5 * R])
        else:
            pk["bin_size"] = rng.choice([R, 2 * R + 0.5, 5 * R])
        if guess != "none":
            if shear and flow == "x":
                bins = sorted({p[0] // shear["h"] for p in frames[0]})
                prof = [[b * shear["h"] + shear["h"] / 2.0, shear["g"] * b] for b in bins]
            else:
                prof = [[0, (vel[1] if flow == "x" else vel[0]) if variant != "plain" else 1]]
            pk["initial_profile_guess"] = [[a, _guess_scaled([u], guess)[0]] for a, u in prof]
    return dict(stream="stateful", dim=dim, frames=frames, t0=mv["t0"], tstep=tstep, sr=mv["sr"],
                iso=mv["iso"], scale_pow=0, memory=mv["memory"], kind=kind, variant=variant,
                vel=vel, shear=shear, guess=guess, pred_kwargs=pk, pred_cols=pred_cols,
                strategy=rng.choice(["recursive", "nonrecursive", "numba", None]),
                entry=rng.choice(["link_df_iter", "link_df_iter", "wrap", "link_df"]),
                linker_cols=(dim == 1 or rng.random() < 0.7))


def recording(cls):
    """thin recording subclass: notes, at every call of `predict`, the frame number asked for, the
    points asked about (track id, observation time, position) and the positions returned"""
    import numpy as np

    class Recording(cls):
        def __init__(self, *a, **k):
            super().__init__(*a, **k)
            self.calls = []
            self.handed, self.yielded = [], []

        def predict(self, t1, particles):
            particles = list(particles)
            asked = [(int(p.track.id), p.t, [float(c) for c in p.pos]) for p in particles]
            vel = getattr(self, "vel", None)          # DriftPredict: the velocity in force
            vel = None if vel is None else [float(x) for x in np.atleast_1d(vel)]
            out = np.array(list(super().predict(t1, particles)), dtype=float)
            self.calls.append((t1, asked, out.copy(), vel))
            return out

        def wrap(self, linking_fcn, *a, **k):
            # run-time wrapper of the linking function (signature-agnostic): notes every table that
            # reaches it (frame values, row identities = index, coordinates as given) and every
            # table it yields (row identities, labels)
            handed, yielded = self.handed, self.yielded

            def spy(f_iter, *aa, **kk):
                def tap():
                    for df in f_iter:
                        handed.append(df.copy())
                        yield df
                for lab in linking_fcn(tap(), *aa, **kk):
                    yielded.append(lab.copy())
                    yield lab
            return super().wrap(spy, *a, **k)
    Recording.__name__ = "Recording" + cls.__name__
    return Recording


def run_stateful(inp):
    """-> (levels, calls, raised): levels = [(t, [[int pos]], [labels])] labelled so far,
    calls = the recorded `predict` calls, raised = None or the name of what ended the movie"""
    import pandas as pd
    import trackpy as tp
    from trackpy.linking.utils import SubnetOversizeException
    dim = inp["dim"]
    cols = COLS[dim]
    cls = recording(getattr(tp.predict, PRED_CLASSES[inp["kind"]]))
    pk = dict(inp["pred_kwargs"])
    for k in ("initial_guess", "initial_guess_positions", "initial_guess_vels", "initial_profile_guess"):
        if k in pk:
            pk[k] = np.array(pk[k], dtype=float)
    if inp.get("pred_cols"):
        pk["pos_columns"] = list(cols)
    if inp["kind"] == "chan":
        pred = cls(pk.pop("bin_size"), **pk)
    else:
        pred = cls(**pk)
    kw = dict(memory=inp["memory"])
    if inp.get("strategy") is not None:
        kw["link_strategy"] = inp["strategy"]
    if inp.get("linker_cols", True):
        kw["pos_columns"] = list(cols)
    sr = linkcommon.search_range_arg(inp)
    t0, ts = inp["t0"], inp.get("tstep", 1)
    tables = []
    for k, pts in enumerate(inp["frames"]):
        df = pd.DataFrame(np.array(pts, dtype=float).reshape(len(pts), dim), columns=cols)
        df["frame"] = t0 + k * ts
        tables.append(df)
    levels, raised = [], None

    def level_of(df):
        return (int(df["frame"].iloc[0]), [[int(round(v)) for v in row] for row in df[cols].values],
                [int(i) for i in df["particle"].values])
    try:
        if inp["entry"] == "link_df":
            tab = pd.concat(tables, ignore_index=True)
            # the table as a user may hold it: rows not ordered by frame (shuffled / sorted by position)
            order = (len(tab) + len(tables)) % 3
            if order == 1 and len(tab):
                tab = tab.sample(frac=1, random_state=len(tab)).reset_index(drop=True)
            elif order == 2 and len(tab):
                tab = tab.sort_values(cols[-1], kind="stable").reset_index(drop=True)
            pred.table_in = tab.copy()
            out = pred.link_df(tab, sr, **kw)
            pred.table_out = out
            for t in sorted(set(int(x) for x in out["frame"].values)):
                levels.append(level_of(out[out["frame"] == t]))
        else:
            if inp["entry"] == "wrap":
                gen = pred.wrap(tp.link_df_iter, iter(tables), sr, **kw)
            else:
                gen = pred.link_df_iter(iter(tables), sr, **kw)
            for df in gen:
                levels.append(level_of(df))
    except SubnetOversizeException:
        raised = "SubnetOversizeException"
    except ValueError as e:
        # DriftPredict: no trajectory shared by the frames the velocity is computed from -> the mean
        # velocity is NaN -> the tree refuses the predicted coordinates
        if inp["kind"] == "drift" and "finite" in str(e):
            raised = "drift_velocity_nan"
        else:
            raise
    if raised and inp["entry"] == "link_df":
        levels = []          # link_df returns nothing when it raises
    run_stateful.last_pred = pred
    return levels, pred.calls, raised


def ptable_tie(ctx, res, inp, pred, sig):
    """`predictor.link_df` = Model/PredictTable.wrapSingle: the frames (and the rows inside each
    frame) must reach the linking function in the model's order, and the labels it yields must come
    back on the model's rows in the model's row order.  -> True when a violation was recorded"""
    tab = getattr(pred, "table_in", None)
    if tab is None or not len(tab):
        return False
    cols = COLS[inp["dim"]]
    ints = lambda row: ",".join(str(int(round(float(v)))) for v in row)
    rows_req = " ; ".join("%d %s %s %d" % (int(ix), common.rat_str(float(fr)), ints(pos), j)
                          for j, (ix, fr, pos) in enumerate(zip(tab.index, tab["frame"].values,
                                                                tab[cols].values)))
    tag_of = {int(ix): j for j, ix in enumerate(tab.index)}      # reset_index: unique
    ids = [[int(x) for x in df["particle"].values] for df in pred.yielded]
    full = len(pred.yielded) == len(pred.handed) and getattr(pred, "table_out", None) is not None
    line = "PTABLE %s | %s" % (rows_req, " ; ".join(" ".join(map(str, g)) for g in ids) if full and ids else "-")
    m = common.kv(ctx.ask(line))
    res.model_calls += 1
    if "status" not in m:
        raise RuntimeError("driver: %r on %s" % (m, line[:300]))
    res.stat("ptable_ties")
    impl_levels = ";".join("%s:%s" % (common.rat_str(float(df["frame"].iloc[0])) if len(df) else "n",
                                      "+".join(ints(r) for r in df[cols].values)) for df in pred.handed)
    impl_groups = ";".join(",".join(str(tag_of[int(ix)]) for ix in df.index) for df in pred.handed)
    mod_levels = "" if m.get("levels") == "-" else m.get("levels", "")
    mod_groups = "" if m.get("groups") == "-" else m.get("groups", "")
    n_handed = len(pred.handed)
    # a run that raised stops early: what was handed over must be a prefix of the model's sequence
    ml, mg = mod_levels.split(";"), mod_groups.split(";")
    if not full:
        ml, mg = ml[:n_handed], mg[:n_handed]
    frames_sorted = sorted(set(float(x) for x in tab["frame"].values))
    in_order = bool((np.diff(tab["frame"].values.astype(float)) >= 0).all())
    res.stat("ptable_table_in_frame_order" if in_order else "ptable_table_not_in_frame_order")
    if m.get("asc") != "1" or impl_levels != ";".join(ml) or impl_groups != ";".join(mg):
        res.violation("correspondence-break",
                      "predictor.link_df: the frames that reach the linking function (frame values %s, "
                      "row order inside the frames) are not the model's (ascending frame value %s, table "
                      "order inside a frame)" % ([float(df["frame"].iloc[0]) for df in pred.handed if len(df)],
                                                 frames_sorted),
                      impl=dict(levels=impl_levels, groups=impl_groups),
                      model=dict(levels=";".join(ml), groups=";".join(mg), asc=m.get("asc"),
                                 first_appearance=m.get("first")),
                      broken="PredictTable.wrapSingle / wrapSingle_frames_ascending (groupby sorts the frames)",
                      signature=dict(stream="stateful", what="frames-handed-over"))
        return True
    if full:
        out = pred.table_out
        impl_rows = ";".join("%d:%s:%s:%d:%d" % (int(ix), common.rat_str(float(fr)), ints(pos), tag_of[int(ix)], int(pa))
                             for ix, fr, pos, pa in zip(out.index, out["frame"].values, out[cols].values,
                                                        out["particle"].values))
        if m["status"] != "ok" or m.get("rows") != impl_rows:
            res.violation("correspondence-break",
                          "predictor.link_df: the returned table (row order, labels written back) is not "
                          "the model's", impl=dict(rows=impl_rows), model=m,
                          broken="PredictTable.wrapSingle (write-back / concatenation)",
                          signature=dict(stream="stateful", what="table-returned"))
            return True
        res.stat("ptable_tables_compared")
    return False


def oracle_unique(levels, memory):
    """the statement itself on the labelled output: one label per feature, labels unique per frame,
    a label never reappears after more than `memory` missed frames.  None = holds."""
    last = {}
    for k, (t, pts, labels) in enumerate(levels):
        if len(labels) != len(pts):
            return "frame %d (level %d): %d labels for %d features" % (t, k, len(labels), len(pts))
        if any((not isinstance(l, int)) or l < 0 for l in labels):
            return "frame %d (level %d): a label is not a non-negative integer" % (t, k)
        if len(set(labels)) != len(labels):
            return "frame %d (level %d): a label is used twice" % (t, k)
        for l in labels:
            if l in last and k - last[l] - 1 > memory:
                return "frame %d (level %d): label %d reappears after %d missed frames (memory %d)" % (
                    t, k, l, k - last[l] - 1, memory)
        for l in labels:
            last[l] = k
    return None


def lany_line(inp, levels, calls_by_t):
    """the `LANY` request: everything multiplied by the common denominator D of the recorded
    predictions (exact), B by D^2"""
    from fractions import Fraction
    from math import gcd
    w, B = linkcommon.weights(inp["sr"])
    D = 1
    fr = {}
    for t, pts, labels in levels[1:]:
        c = calls_by_t.get(t)
        if c is None:
            continue
        rows = []
        for (track, tobs, pos), pr in zip(c[1], c[2]):
            fp = [Fraction(x) for x in pos]
            fq = [Fraction(float(x)) for x in pr]
            for f in fp + fq:
                D = D * f.denominator // gcd(D, f.denominator)
            rows.append((track, int(tobs), fp, fq))
        fr[t] = rows

    def ints(fs):
        return ",".join(str(int(f * D)) for f in fs)
    parts = ["w=%s B=%d mem=%d" % (",".join(map(str, w)), B * D * D, inp["memory"])]
    for t, pts, labels in levels:
        cs = " ".join(",".join(str(int(c) * D) for c in p) for p in pts)
        ps = " ".join("%d:%d:%s:%s" % (track, tobs, ints(fp), ints(fq)) for track, tobs, fp, fq in fr.get(t, []))
        parts.append("t=%d | %s | %s | %s" % (t, cs, " ".join(str(l) for l in labels), ps))
    return "LANY " + " ; ".join(parts), D, fr


def link_margins(inp, levels, fr):
    """exact look at every link that continues a recorded source: (#links, #links within range of
    the prediction only, #links after a gap, smallest relative excess over the range or None)"""
    from fractions import Fraction
    w, B = linkcommon.weights(inp["sr"])
    links = rescued = gaps = 0
    worst = None
    for t, pts, labels in levels[1:]:
        rows = {track: (tobs, fp, fq) for track, tobs, fp, fq in fr.get(t, [])}
        for q, l in zip(pts, labels):
            if l not in rows:
                continue
            tobs, fp, fq = rows[l]
            d_pred = sum(wi * (a - b) ** 2 for wi, a, b in zip(w, fq, q))
            d_pos = sum(wi * (a - b) ** 2 for wi, a, b in zip(w, fp, q))
            links += 1
            if d_pos > B and d_pred <= B:
                rescued += 1
            if d_pred > B:
                ex = Fraction(d_pred - B, B)
                worst = ex if worst is None or ex < worst else worst
    return links, rescued, worst


def run_stateful_case(ctx, inp):
    res = Result()
    levels, calls, raised = run_stateful(inp)
    name = PRED_CLASSES[inp["kind"]]
    res.stat("stateful_cases")
    res.stat("stateful_" + name)
    res.stat("stateful_variant_" + inp["variant"])
    res.stat("stateful_entry_" + inp["entry"])
    res.stat("stateful_span_%d" % inp["pred_kwargs"]["span"])
    res.stat("stateful_guess_" + inp["guess"])
    res.stat("stateful_memory_%d" % inp["memory"])
    if raised:
        res.stat("stateful_ended_by_" + raised)
    res.stat("stateful_levels", len(levels))
    sig = dict(stream="stateful", predictor=name)
    # (o) the table adapter of `link_df`: which frames reach the linking function, in which order
    if inp["entry"] == "link_df":
        if ptable_tie(ctx, res, inp, run_stateful.last_pred, sig):
            return res
    # (i) the statement itself
    omsg = oracle_unique(levels, inp["memory"])
    if omsg is not None:
        res.violation("property-violation", "%s: %s" % (name, omsg), impl=levels,
                      signature=dict(sig, what="labels-not-unique-or-restarted"))
        return res
    if len(levels) < 2:
        return res
    # (ii) the monitor, `pred` := the positions the real predictor returned in this run
    calls_by_t = {}
    for c in calls:
        t1 = int(c[0])
        if t1 in calls_by_t:
            res.stat("stateful_predict_called_again")
        calls_by_t[t1] = c
    used_t = {t for t, _, _ in levels[1:]}
    if any(not np.all(np.isfinite(c[2])) for t1, c in calls_by_t.items() if t1 in used_t):
        res.stat("stateful_nonfinite_prediction")
        return res
    # DriftPredict is the monitor's `view` with the velocity in force at that call: every source
    # (remembered ones included) is extrapolated over ITS OWN elapsed time
    if inp["kind"] == "drift":
        for t1 in sorted(used_t & set(calls_by_t)):
            _, asked, out, vel = calls_by_t[t1]
            if vel is None:
                continue
            res.stat("stateful_drift_law_calls")
            for (track, tobs, pos), pr in zip(asked, out):
                exp = [p + v * (t1 - tobs) for p, v in zip(pos, vel)]
                if any(abs(a - b) > 1e-6 * (1.0 + abs(a)) for a, b in zip(exp, pr)):
                    res.violation("correspondence-break",
                                  "DriftPredict: prediction for track %d (observed at t=%s at %s) asked for "
                                  "t=%s is %s, not pos + vel*(t - t_obs) = %s (vel %s)" % (
                                      track, tobs, pos, t1, [float(x) for x in pr], exp, vel),
                                  impl=dict(levels=levels), model=dict(expected=exp),
                                  broken="Linker.view (pos + vel*(t - t_obs)) as the model of DriftPredict.predict",
                                  signature=dict(sig, what="drift-law"))
                    return res
    line, D, fr = lany_line(inp, levels, calls_by_t)
    links, rescued, worst = link_margins(inp, levels, fr)
    moved = sum(1 for rows in fr.values() for _, _, fp, fq in rows if fp != fq)
    res.stat("stateful_predictions", sum(len(r) for r in fr.values()))
    res.stat("stateful_predictions_moved", moved)
    res.stat("stateful_links", links)
    res.stat("stateful_links_only_by_prediction", rescued)
    if D > 1024:
        res.stat("stateful_fraction_of_float_movies")
    if worst is not None and worst <= 1e-6:
        res.borderline = True      # within the 1e-7 slack of the range query: not judged
        return res
    m = common.kv(ctx.ask(line))
    res.model_calls += 1
    if "verdict" not in m:
        raise RuntimeError("driver: %r on %s" % (m, line[:300]))
    relinks = int(m.get("relinks", 0))
    res.stat("relinks_after_gap", relinks)
    if m["verdict"] != "ok":
        reason = str(m.get("reason")).replace("_", " ")
        res.violation("correspondence-break",
                      "%s: monitor stepCheckAny rejects the labelled output at step %s (%s) with the "
                      "recorded predictions, the oracle of the statement accepts it" % (name, m.get("step"), reason),
                      impl=dict(levels=levels, predictions={t: [(a, b, [str(x) for x in c], [str(x) for x in d])
                                                               for a, b, c, d in rows] for t, rows in fr.items()}),
                      model=m, broken="LinkerAny.stepCheckAny with the recorded predictions",
                      signature=dict(sig, what=reason))
        return res
    if m.get("srcmatch") != "1":
        res.violation("correspondence-break",
                      "%s: at step %s the predictor was not asked about exactly the monitor's candidate "
                      "sources (previous level + points remembered for <= memory levels, each with its "
                      "own observation time and position)" % (name, m.get("srcstep")),
                      impl=dict(levels=levels, asked={t: [(a, b, [str(x) for x in c]) for a, b, c, d in rows]
                                                      for t, rows in fr.items()}),
                      model=m, broken="LinkerAny.statesAlong / nextState (candidate sources)",
                      signature=dict(sig, what="sources-differ"))
        return res
    res.nontrivial = moved > 0 and (relinks > 0 or rescued > 0)
    if res.nontrivial and len(levels) <= 3 and sum(len(l[1]) for l in levels) <= 8:
        res.sample = dict(input=inp, labels=[l[2] for l in levels], monitor=m,
                          predictions={str(t): [(a, b, [str(x) for x in d]) for a, b, c, d in rows]
                                       for t, rows in fr.items()})
    return res
