#!/usr/bin/env python3
"""usage: mark_first_miss.py <PROP-M> <prop> "<what was strengthened>"
For a seeded change whose confirmation ran AFTER the check had already been strengthened (the miss
of the earlier check was observed with tools/muttest.sh at the earlier commit): record that first
run next to the confirmed one, the way recheck_seed.py does."""
import json, sys
d, prop, note = sys.argv[1], sys.argv[2], sys.argv[3]
p = "/verif/seeded/%s/meta.json" % d
m = json.load(open(p))
assert "first_run_checks" not in m, "already has a first run"
m["first_run_checks"] = {prop: dict(exit=0, lines=[], note="observed with tools/muttest.sh before the "
                                    "strengthening was committed: violations=0")}
m["strengthened"] = note
json.dump(m, open(p, "w"), indent=1, sort_keys=True)
print(d, "first run marked as MISSED")
