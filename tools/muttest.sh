#!/bin/bash
# usage: tools/muttest.sh <patch-file> <Cxx> [more Cxx...]   — apply a patch to a scratch worktree of /repo and run the quick checks against it
set -e
P=$1; shift
W=/tmp/rw/main_mut
# scratch worktree of /repo outside /repo and /verif; created on demand, remove it when done:
#   git -C /repo worktree remove --force /tmp/rw/main_mut
[ -d $W ] || { mkdir -p /tmp/rw; git -C /repo worktree add -q --detach $W HEAD; }
git -C $W checkout -q -- . ; git -C $W checkout -q --detach $(git -C /repo rev-parse HEAD) 2>/dev/null
git -C $W apply $P
for c in "$@"; do
  VERIF_REPO=$W /verif/check $c --tier quick --no-lean 2>&1 | grep -v "^WARNING" | tail -4
done
git -C $W checkout -q -- .
