#!/usr/bin/env python3
"""Prints the catch matrix of the seeded changes (seeded/*/meta.json) as a markdown table."""
import json, glob, os
rows = []
def verdict(v):
    if v["exit"] == 1:
        conc = any(l.startswith("VIOLATION") and "no-failing-input-found" not in l for l in v["lines"])
        return "caught (concrete replay)" if conc else "caught (no-failing-input-found)"
    if v["exit"] == 0:
        return "MISSED"
    return "exit %s" % v["exit"]
for f in sorted(glob.glob("/verif/seeded/*/meta.json")):
    m = json.load(open(f))
    d = os.path.basename(os.path.dirname(f))
    diff = open(os.path.join(os.path.dirname(f), "patch.diff")).read()
    files = sorted({l[6:].replace("trackpy/", "") for l in diff.split("\n") if l.startswith("+++ b/")})
    prop = m["property"]
    tgt = verdict(m["checks"][prop]) if prop in m["checks"] else "-"
    first = ""
    if m.get("first_run_checks") and prop in m["first_run_checks"]:
        fv = verdict(m["first_run_checks"][prop])
        if fv != tgt:
            first = " — first run: %s; strengthened: %s" % (fv, m.get("strengthened", "")[:160])
    others = "; ".join("%s %s" % (c, "caught" if v["exit"] == 1 else "not affected/missed")
                       for c, v in m["checks"].items() if c != prop)
    rows.append("| %s | %s | %s | %s%s | %s |" % (d, ", ".join(files), "yes" if m["confirmed"] else "NO",
                                               tgt, first, others))
print("| seeded change | files | confirmed | check of the property it breaks | other checks run |")
print("|---|---|---|---|---|")
print("\n".join(rows))
