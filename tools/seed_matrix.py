#!/usr/bin/env python3
"""Prints the catch matrix of the seeded changes (seeded/*/meta.json) as a markdown table."""
import json, glob, os
rows = []
for f in sorted(glob.glob("/verif/seeded/*/meta.json")):
    m = json.load(open(f))
    d = os.path.basename(os.path.dirname(f))
    first = ""
    diff = open(os.path.join(os.path.dirname(f), "patch.diff")).read()
    files = sorted({l[6:] for l in diff.split("\n") if l.startswith("+++ b/")})
    caught = []
    for c, v in m["checks"].items():
        if v["exit"] == 1:
            kinds = "concrete" if any("no-failing-input-found" not in l for l in v["lines"] if l.startswith("VIOLATION")) else "no-failing-input-found"
            caught.append("%s (%s)" % (c, kinds))
        elif v["exit"] == 0:
            caught.append("%s: MISSED" % c)
        else:
            caught.append("%s: exit %s" % (c, v["exit"]))
    rows.append("| %s | %s | %s | %s |" % (d, ", ".join(files), "yes" if m["confirmed"] else "NO", "; ".join(caught)))
print("| seeded change | files touched | confirmed (demo fails with / passes without, suite passes) | quick checks run against it |")
print("|---|---|---|---|")
print("\n".join(rows))
