#!/usr/bin/env python3
"""Run the repository's pinned test suite (guard off) and compare with /root/.vp/BASELINE.json:
every test in stable_pass must still pass.  usage: baseline_check.py [repo_dir]"""
import json, os, subprocess, sys, tempfile
import xml.etree.ElementTree as ET
repo = sys.argv[1] if len(sys.argv) > 1 else "/repo"
base = json.load(open("/root/.vp/BASELINE.json"))
want = set(base["stable_pass"])
x = tempfile.mktemp(suffix=".xml")
cmd = ["/venv/bin/python", "-m", "pytest", "-q", "-p", "no:cacheprovider", "--timeout=900",
       "--continue-on-collection-errors", "--junitxml=" + x]
p = subprocess.run(cmd, cwd=repo, stdout=subprocess.PIPE, stderr=subprocess.STDOUT, text=True)
passed = set()
for tc in ET.parse(x).getroot().iter("testcase"):
    if not any(ch.tag in ("failure", "error", "skipped") for ch in tc):
        passed.add("%s::%s" % (tc.get("classname"), tc.get("name")))
os.unlink(x)
missing = sorted(want - passed)
print(p.stdout.strip().split("\n")[-1])
print("stable_pass: %d, passing now: %d, stable tests no longer passing: %d" % (len(want), len(passed), len(missing)))
for m in missing[:40]:
    print("  LOST", m)
sys.exit(1 if missing else 0)
