#!/usr/bin/env python3
"""For every stored seeded change run the property's quick check (no Lean rebuild) at several seeds
against a scratch worktree with the change applied; records how many seeds detect it.
usage: seed_robustness.py [seeds, comma separated] [only these dirs...]   -> seeded/robustness.json"""
import json, os, subprocess, sys, time
seeds = [int(x) for x in (sys.argv[1] if len(sys.argv) > 1 else "11,12").split(",")]
only = sys.argv[2:]
root = "/verif/seeded"
wt = "/tmp/rw/robust"
def sh(cmd, **kw):
    p = subprocess.run(cmd, shell=True, stdout=subprocess.PIPE, stderr=subprocess.STDOUT, text=True, **kw)
    return p.returncode, p.stdout
outp = root + "/robustness.json"
res = json.load(open(outp)) if os.path.exists(outp) else {}
sh("git -C /repo worktree remove --force %s" % wt)
rc, out = sh("git -C /repo worktree add -q --detach %s HEAD" % wt); assert rc == 0, out
try:
    for d in sorted(os.listdir(root)):
        if not os.path.isfile("%s/%s/patch.diff" % (root, d)) or (only and d not in only):
            continue
        prop = d.split("-")[0]
        sh("git -C %s checkout -q -- ." % wt)
        rc, out = sh("git -C %s apply %s/%s/patch.diff" % (wt, root, d))
        if rc != 0:
            res[d] = dict(error="patch does not apply to HEAD: " + out[:200]); continue
        r = {}
        for s in seeds:
            t0 = time.time()
            rcc, outc = sh("cd /verif && VERIF_SEED=%d VERIF_JOBS=6 VERIF_REPO=%s nice -n 10 ./check %s --tier quick --no-lean"
                           % (s, wt, prop), timeout=3000)
            r[str(s)] = dict(exit=rcc, wall=round(time.time() - t0, 1))
        res[d] = dict(property=prop, seeds=r, detected=sum(1 for v in r.values() if v["exit"] == 1), of=len(seeds))
        json.dump(res, open(outp, "w"), indent=1, sort_keys=True)
        print(d, res[d]["detected"], "/", len(seeds), flush=True)
finally:
    sh("git -C /repo worktree remove --force %s" % wt)
