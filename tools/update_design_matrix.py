#!/usr/bin/env python3
"""Rewrites the block between <!-- SEED-MATRIX-BEGIN --> and <!-- SEED-MATRIX-END --> in DESIGN.md
with the current output of tools/seed_matrix.py."""
import subprocess, re
m = subprocess.run(["python3", "/verif/tools/seed_matrix.py"], stdout=subprocess.PIPE, text=True).stdout
p = "/verif/DESIGN.md"
s = open(p).read()
blk = "<!-- SEED-MATRIX-BEGIN -->\n" + m + "<!-- SEED-MATRIX-END -->"
if "<!-- SEED-MATRIX-BEGIN -->" in s:
    s = re.sub(r"<!-- SEED-MATRIX-BEGIN -->.*?<!-- SEED-MATRIX-END -->", lambda _: blk, s, flags=re.S)
else:
    raise SystemExit("markers missing")
open(p, "w").write(s)
print("matrix rows:", m.count("\n") - 2)
