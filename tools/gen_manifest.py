#!/usr/bin/env python3
"""Builds MANIFEST.json from manifest.d/*.json fragments (one per claimed property) and
manifest.d/_not_applicable.json.  Run after adding/changing a fragment."""
import json, os, glob
ROOT = os.path.dirname(os.path.dirname(os.path.abspath(__file__)))
BASE = json.load(open("/root/.vp/BASELINE.json"))["cmd"] if os.path.exists("/root/.vp/BASELINE.json") else ""
props = [json.loads(l)["id"] for l in open(os.path.join(ROOT, "properties.jsonl"))]
checks, claimed = [], []
for p in props:
    fn = os.path.join(ROOT, "manifest.d", p + ".json")
    if not os.path.exists(fn):
        continue
    fr = json.load(open(fn))
    claimed.append(p)
    checks.append(dict(
        property_id=p,
        quick_cmd="./check %s --tier quick" % p,
        thorough_cmd="./check %s --tier thorough" % p,
        evidence_file="evidence/%s.json" % p,
        replay_cmd_template="./check %s --replay {path}" % p,
        engine="lean-model+driver",
        level_claimed=dict(category="proof", text=fr["text"], design_ref=fr["design_ref"]),
        level_note=fr["level_note"],
        technique=fr.get("technique", "Lean 4 theorems about a hand-written executable model + per-run differential correspondence with the code"),
    ))
na = json.load(open(os.path.join(ROOT, "manifest.d", "_not_applicable.json")))
na_list = [dict(property_id=p, reason=na[p]) for p in props if p not in claimed]
man = dict(
    version=1,
    setup_cmd="./check --build",
    hooks=dict(guard="TRACKPY_VERIF",
               enable="none needed: observation is done by wrapping trackpy functions from the harness at run time; /repo carries no instrumentation",
               baseline_off_cmd="cd /repo && /venv/bin/python -m pytest -ra -q -p no:cacheprovider --timeout=900 --continue-on-collection-errors",
               source_commits=[], add_only=True),
    engines=[dict(name="lean-model+driver", path="lean/", serves_properties=claimed,
                  kind_free_text="Lean 4 library: executable models (Model/), helper lemmas (Proofs/), property theorems (Props/), native line-protocol driver (Driver.lean)"),
             dict(name="harness", path="harness/", serves_properties=claimed,
                  kind_free_text="Python correspondence harness: generators, implementation runners against /repo's working tree, independent oracles, evidence writer")],
    checks=checks,
    not_applicable=na_list,
    notes="See DESIGN.md. exit 0 held / known findings only; exit 1 VIOLATION; exit 2 infrastructure (never a violation).",
)
json.dump(man, open(os.path.join(ROOT, "MANIFEST.json"), "w"), indent=1)
print("claimed:", claimed)
print("not applicable:", [x["property_id"] for x in na_list])
