#!/usr/bin/env python3
"""validate MANIFEST.json and evidence/*.json against the schemas (run with python3-vt)"""
import json, glob, sys, jsonschema
ok = True
try:
    jsonschema.validate(json.load(open('/verif/MANIFEST.json')), json.load(open('/root/.vp/MANIFEST.schema.json')))
except Exception as e:
    ok = False; print("MANIFEST:", e)
sch = json.load(open('/root/.vp/EVIDENCE.schema.json'))
for f in sorted(glob.glob('/verif/evidence/*.json')):
    try:
        jsonschema.validate(json.load(open(f)), sch)
    except Exception as e:
        ok = False; print(f, str(e)[:300])
print("valid" if ok else "INVALID")
sys.exit(0 if ok else 1)
