#!/usr/bin/env python3
"""Confirm a seeded change and record which checks catch it.
usage: confirm_seed.py <PROP> <A|B> [extra check ids...]
reads /tmp/seed/out_<PROP>/{A,B}.diff, demo_{A,B}.py, notes.md; writes /verif/seeded/<PROP>-<A|B>/"""
import json, os, shutil, subprocess, sys, time
prop, m = sys.argv[1], sys.argv[2]
extra = sys.argv[3:]
rnd = os.environ.get("SEED_ROUND", "")          # "" = round 1, "2" = round 2 …
src = "/tmp/seed/out%s_%s" % (rnd, prop)
wt = "/tmp/rw/confirm%s_%s%s" % (rnd, prop, m)
dst = "/verif/seeded/%s-%s%s" % (prop, m, rnd)
def sh(cmd, **kw):
    p = subprocess.run(cmd, shell=True, stdout=subprocess.PIPE, stderr=subprocess.STDOUT, text=True, **kw)
    return p.returncode, p.stdout
sh("git -C /repo worktree remove --force %s" % wt)
rc, out = sh("git -C /repo worktree add -q %s HEAD" % wt)
assert rc == 0, out
ran = []
try:
    demo = os.path.join(src, "demo_%s.py" % m)
    rc0, out0 = sh("cd %s && PYTHONPATH=%s /venv/bin/python %s" % (wt, wt, demo), timeout=900)
    ran.append("demo on unchanged tree: exit %d" % rc0)
    rc, out = sh("git -C %s apply %s/%s.diff" % (wt, src, m))
    assert rc == 0, "patch does not apply: " + out
    rc1, out1 = sh("cd %s && PYTHONPATH=%s /venv/bin/python %s" % (wt, wt, demo), timeout=900)
    ran.append("demo with change: exit %d" % rc1)
    rcb, outb = sh("python3 /verif/tools/baseline_check.py %s" % wt, timeout=3000)
    ran.append("existing suite with change: " + outb.strip().split("\n")[-1] if rcb == 0 else "existing suite: " + outb[-500:])
    caught = {}
    for c in [prop] + extra:
        t0 = time.time()
        rcc, outc = sh("cd /verif && VERIF_REPO=%s ./check %s --tier quick --no-lean" % (wt, c), timeout=3000)
        lines = [l for l in outc.split("\n") if l.startswith("VIOLATION") or l.startswith("KNOWN-FINDING") or l.startswith("INFRA")]
        caught[c] = dict(exit=rcc, lines=lines[:6], wall_s=round(time.time() - t0, 1))
        # keep the first replay as evidence of what the check reported
    ok = (rc0 == 0 and rc1 != 0 and rcb == 0)
    os.makedirs(dst, exist_ok=True)
    shutil.copy(os.path.join(src, "%s.diff" % m), os.path.join(dst, "patch.diff"))
    shutil.copy(demo, os.path.join(dst, "demo.py"))
    notes = open(os.path.join(src, "notes.md")).read() if os.path.exists(os.path.join(src, "notes.md")) else ""
    meta = dict(property=prop, mutation=m, confirmed=ok, what_i_ran=ran, checks=caught,
                repo_head=subprocess.run("git -C /repo rev-parse --short HEAD", shell=True, stdout=subprocess.PIPE, text=True).stdout.strip(),
                needs_to_manifest="see notes.md (written by the independent agent that produced the change)")
    json.dump(meta, open(os.path.join(dst, "meta.json"), "w"), indent=1)
    open(os.path.join(dst, "notes.md"), "w").write(notes)
    print(json.dumps(dict(prop=prop, m=m, confirmed=ok, ran=ran, caught={k: (v["exit"], v["lines"][:2]) for k, v in caught.items()}), indent=1))
finally:
    sh("git -C /repo worktree remove --force %s" % wt)
