#!/usr/bin/env python3
"""Re-run the quick checks against a stored seeded change (after strengthening a check) and record
the result next to the first run.  usage: recheck_seed.py <PROP-M> "<what was strengthened>" [checks...]"""
import json, os, subprocess, sys, time
d = sys.argv[1]; note = sys.argv[2]; checks = sys.argv[3:]
dst = "/verif/seeded/%s" % d
meta = json.load(open(dst + "/meta.json"))
checks = checks or [meta["property"]]
wt = "/tmp/rw/recheck_%s" % d
def sh(cmd, **kw):
    p = subprocess.run(cmd, shell=True, stdout=subprocess.PIPE, stderr=subprocess.STDOUT, text=True, **kw)
    return p.returncode, p.stdout
sh("git -C /repo worktree remove --force %s" % wt)
rc, out = sh("git -C /repo worktree add -q %s HEAD" % wt); assert rc == 0, out
try:
    rc, out = sh("git -C %s apply %s/patch.diff" % (wt, dst)); assert rc == 0, out
    res = {}
    for c in checks:
        rcc, outc = sh("cd /verif && VERIF_REPO=%s ./check %s --tier quick --no-lean" % (wt, c), timeout=3000)
        lines = [l for l in outc.split("\n") if l.startswith(("VIOLATION", "KNOWN-FINDING", "INFRA"))]
        res[c] = dict(exit=rcc, lines=lines[:6])
    meta.setdefault("first_run_checks", meta["checks"])
    meta["checks"] = {**meta["checks"], **res}
    meta["strengthened"] = note
    json.dump(meta, open(dst + "/meta.json", "w"), indent=1)
    print(d, {k: v["exit"] for k, v in res.items()})
finally:
    sh("git -C /repo worktree remove --force %s" % wt)
